import GenjaxModel.Model.Mcmc
/-
  Model of the log acceptance ratios that `mala` (src/genjax/inference/mcmc.py 312-431) and `hmc`
  (434-578) actually compute, in the operation order of the code.

  Conventions.
  * The selected choices are a pytree of leaves (one array per address).  Element-wise operations
    (`tree_map` of `+`, `*`) do not see the leaf structure, so positions / gradients / noise / momenta are
    flat coordinate lists as in `Model/Mcmc.lean`.  Only the *sums* see it: the code takes `jnp.sum` per
    leaf and then `tree_reduce(jnp.add, …)` over the leaves.  `shape : List Nat` is the list of leaf sizes
    and `treeSum shape v` is that two-level sum.
  * `normal.logpdf(x, mean, std)` is written as TFP writes it:
    `-0.5 * (x/std - mean/std)² - log_normalization`; the normaliser `log(std·√(2π))` is the abstract
    parameter `c` (it is the same number for every coordinate of one kernel step because `std` is).
  * The target enters through `logp : List K → K` (what `log_density_wrt_selected` returns, and whose
    difference is the weight `update` returns, C03) and `grad : List K → List K`
    (`jax.grad(log_density_wrt_selected)`).
  Generic over the number type; runs on `Rat`.
-/
namespace Genjax.Mcmc

variable {K : Type} [Zero K] [One K] [Add K] [Sub K] [Mul K] [Div K] [Neg K] [OfNat K 2]

/-- `jnp.sum` of one leaf -/
def vsum (a : List K) : K := a.foldr (· + ·) 0

/-- split a flat coordinate list into leaves of the given sizes -/
def leaves : List Nat → List K → List (List K)
  | [], _ => []
  | n :: ns, v => v.take n :: leaves ns (v.drop n)

/-- `tree_reduce(jnp.add, tree_map(jnp.sum, ·))`: sum per leaf, then over the leaves -/
def treeSum (shape : List Nat) (v : List K) : K := vsum ((leaves shape v).map vsum)

/-- `normal.logpdf(x, mu, sigma)` with normaliser `c = log(sigma·√(2π))` -/
def normalLogpdf (c sigma x mu : K) : K :=
  -((x / sigma - mu / sigma) * (x / sigma - mu / sigma) / 2) - c

/-- mean of the Langevin proposal: `current + (step_size²/2)·grad` -/
def langevinMean (eps : K) (x g : List K) : List K := vadd x (smul (eps * eps / 2) g)

/-- `mala_log_prob_fn(current, proposed, grad)` summed over the leaves:
    log N(proposed ; current + (ε²/2)·grad, ε) -/
def malaLogProb (c eps : K) (shape : List Nat) (cur prop g : List K) : K :=
  treeSum shape (List.zipWith (fun y m => normalLogpdf c eps y m) prop (langevinMean eps cur g))

/-- the quantity `log_alpha` of `mala` before the `minimum(0, ·)`, as a function of the current point
    `x` and the proposed point `x'`: `model_weight + backward_log_prob_total - forward_log_prob_total`;
    the forward density uses the gradient at `x`, the backward density the gradient at `x'` -/
def malaLogRatio (c eps : K) (shape : List Nat) (logp : List K → K) (grad : List K → List K)
    (x x' : List K) : K :=
  let fwd := malaLogProb c eps shape x x' (grad x)
  let w := logp x' - logp x
  let bwd := malaLogProb c eps shape x' x (grad x')
  w + bwd - fwd

/-- one `mala` step up to the accept test: the proposal for the noise drawn and its log alpha -/
def malaStep (c eps : K) (shape : List Nat) (logp : List K → K) (grad : List K → List K)
    (x noise : List K) : List K × K :=
  let x' := malaPropose eps x (grad x) noise
  (x', malaLogRatio c eps shape logp grad x x')

def malaLogAlpha (c eps : K) (shape : List Nat) (logp : List K → K) (grad : List K → List K)
    (x noise : List K) : K := (malaStep c eps shape logp grad x noise).2

/-- `assess_momentum` summed over the leaves: Σ log N(p_i ; 0, 1), normaliser `c = log √(2π)` -/
def momentumScore (c : K) (shape : List Nat) (p : List K) : K :=
  treeSum shape (p.map (fun a => normalLogpdf c 1 a 0))

/-- the quantity `log_alpha` of `hmc` before the `minimum(0, ·)`:
    `(new_model_score + new_momentum_score) - (prev_model_score + prev_momentum_score)`, the new momentum
    score being taken at the negated final momentum -/
def hmcLogAlpha (c eps : K) (n : Nat) (shape : List Nat) (logp : List K → K) (grad : List K → List K)
    (x p : List K) : K :=
  let prevModel := logp x
  let prevMom := momentumScore c shape p
  let fin := leapfrogN grad eps n (x, p)
  let newModel := logp fin.1
  let newMom := momentumScore c shape (flip fin).2
  (newModel + newMom) - (prevModel + prevMom)

/-- one `hmc` step up to the accept test: final (position, negated momentum) and log alpha -/
def hmcStep (c eps : K) (n : Nat) (shape : List Nat) (logp : List K → K) (grad : List K → List K)
    (x p : List K) : (List K × List K) × K :=
  (flip (leapfrogN grad eps n (x, p)), hmcLogAlpha c eps n shape logp grad x p)

/-! ### a self-contained family of targets: quadratic log densities `k + b·x − ½ xᵀA x` -/

def dot (a b : List K) : K := vsum (List.zipWith (· * ·) a b)
def matVec (A : List (List K)) (x : List K) : List K := A.map (fun r => dot r x)

/-- log density `k + ⟨b,x⟩ − ½⟨x, A x⟩` -/
def quadLogp (k : K) (A : List (List K)) (b x : List K) : K := k + dot b x - dot x (matVec A x) / 2

/-- its gradient for symmetric `A`: `b − A x` -/
def quadGrad (A : List (List K)) (b x : List K) : List K := vadd b (vneg (matVec A x))

end Genjax.Mcmc
