import GenjaxModel.Model.Smc
import GenjaxModel.Model.HmmIO
/-! driver side of C10 -/
namespace Genjax
open Smc

/-- a tiny discrete SMC instance computed exactly: X = {0,1}, one extend step with proposal q and
    incremental weight G = p_incr/q, adaptive resampling (always), N particles -/
def smcExact (n : Nat) : Rat × Rat :=
  let q : Nat → FinDist Rat Nat := fun x => if x = 0 then [(0, 1/2), (1, 1/2)] else [(0, 1/4), (1, 3/4)]
  let pinc : Nat → Nat → Rat := fun x x' => (if x = x' then 2/3 else 1/3) * (if x' = 1 then 3/5 else 1/5)
  let qv : Nat → Nat → Rat := fun x x' => ((q x).find? (fun e => e.1 == x')).map (·.2) |>.getD 0
  let G : Nat → Nat → Rat := fun x x' => pinc x x' / qv x x'
  let s0 : Sys Rat Nat := { parts := List.replicate n (0, 1), acc := 1 }
  let d := FinDist.bind (extendStep q G s0) fun s1 =>
           FinDist.bind (resampleStep s1) fun s2 => extendStep q G s2
  let est := FinDist.E d (fun s => s.lml)
  -- exact evidence: Σ_{x1,x2} pinc(0,x1) pinc(x1,x2)
  let z := sumK ([0, 1].flatMap fun x1 => [0, 1].map fun x2 => pinc 0 x1 * pinc x1 x2)
  (est, z)

def stepSmc : SExp → Option SExp
  | .list [.atom "smc-lml", .list ws, .atom acc] => do
      let ws ← readRats ws
      let acc ← readRat acc
      let s : Sys Rat Nat := { parts := ws.map fun w => (0, w), acc := acc }
      pure (.list [.atom "ok", .atom (showRat s.lml)])
  | .list [.atom "smc-exact", .atom n] => do
      let n ← n.toNat?
      let (a, b) := smcExact n
      pure (.list [.atom "ok", .atom (showRat a), .atom (showRat b)])
  | _ => none

end Genjax
