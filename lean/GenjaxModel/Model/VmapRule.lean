import GenjaxModel.Model.SeedVec
/-
  Value-level model of the sample batching rule (src/genjax/pjax.py,
  `VmapBatchHandler._handle_modular_vmap`), property C08.

  `Model/Vmap.lean` models where the lane axis sits (shapes only), `Model/SeedVec.lean` the nest of
  rebinds (one sampler call, `sample_shape = unbatched lanes ++ own`).  This file models the VALUES:
  which parameter values and which position of the ONE sampler call every entry of the vectorised
  result is drawn from.

  * arrays are `shape × (index → α)` (`Arr`), so `moveaxis`, slicing and broadcasting are index
    transformations;
  * the keyful sampler contract (`draw`): bind positional / keyword parameters to the sampler's
    signature, broadcast the parameter shapes trailing-aligned (numpy rule) to `B`, return an array
    of shape `sample_shape ++ B` whose entry at position `p = s ++ b` is
    `site key p (parameter values at broadcast index b)` for an abstract per-entry function `site`;
  * the rule (`rule`): drop the dummy, `n = static_dim_length`, extend `sample_shape` by `axis_size`
    when no parameter is batched, move every mapped axis to the front, re-build args / kwargs, call
    the sampler ONCE, declare the output axis; `vmapOut` is what `jax.vmap` then does with the
    declared axis (move it to the front).  The three `Cfg` flags switch back to the code BEFORE the
    fixes 72f5066 (`moveMappedAxes`, `axisAfterSampleShape`) and b0e536c (`kwargsAsKeywords`);
    `Cfg.spec` (all true) is the code as it is now.

  Mathlib-free, executable (driver command `vmap-rule`, `Model/VmapRuleIO.lean`).
-/
namespace Genjax.VmapRule

/-- an array: its shape and a total index function (only in-range indices matter) -/
structure Arr (α : Type) where
  shape : List Nat
  get : List Nat → α

namespace Arr
variable {α : Type}

/-- all entries, row-major -/
def entries (a : Arr α) : List α := (Seed.indices a.shape).map a.get

/-- row-major flat offset of an index -/
def flatIndex : List Nat → List Nat → Nat
  | _ :: s, i :: ix => i * s.foldr (· * ·) 1 + flatIndex s ix
  | _, _ => 0

/-- array from a shape and its row-major entries -/
def ofFlat (shape : List Nat) (vals : List α) (dflt : α) : Arr α :=
  ⟨shape, fun ix => vals.getD (flatIndex shape ix) dflt⟩

/-- `jnp.moveaxis(a, d, 0)` -/
def moveFront (a : Arr α) (d : Nat) : Arr α :=
  ⟨a.shape.getD d 0 :: a.shape.eraseIdx d,
   fun ix => match ix with
     | i :: r => a.get (r.insertIdx d i)
     | [] => a.get []⟩

/-- `jnp.take(a, i, axis=d)`: lane i's slice of an argument mapped along axis d -/
def take (a : Arr α) (d i : Nat) : Arr α :=
  ⟨a.shape.eraseIdx d, fun ix => a.get (ix.insertIdx d i)⟩

end Arr

/-! ### numpy broadcasting (trailing-aligned) -/

/-- two aligned dimensions -/
def bc1 (x y : Nat) : Option Nat :=
  if x = y then some x else if x = 1 then some y else if y = 1 then some x else none

/-- two shapes of the same rank -/
def bcPadded : List Nat → List Nat → Option (List Nat)
  | [], [] => some []
  | x :: xs, y :: ys =>
      match bc1 x y, bcPadded xs ys with
      | some z, some zs => some (z :: zs)
      | _, _ => none
  | _, _ => none

/-- left-pad a shape with 1s to rank r -/
def pad (r : Nat) (s : List Nat) : List Nat := List.replicate (r - s.length) 1 ++ s

def maxRank (shapes : List (List Nat)) : Nat := shapes.foldr (fun s r => max s.length r) 0

/-- broadcast equal-rank rows into `init` -/
def bcAll (rows : List (List Nat)) (init : List Nat) : Option (List Nat) :=
  rows.foldr (fun s acc => acc.bind (bcPadded s)) (some init)

/-- `jnp.broadcast_shapes`: `none` = the shapes are not broadcast-compatible (the call raises) -/
def bshape (shapes : List (List Nat)) : Option (List Nat) :=
  bcAll (shapes.map (pad (maxRank shapes))) (List.replicate (maxRank shapes) 1)

/-- index into an array of shape `shape` that the broadcast index `b` (rank ≥ rank of `shape`)
    reads: trailing-aligned, size-1 axes read entry 0 -/
def bidx (shape : List Nat) (b : List Nat) : List Nat :=
  List.zipWith (fun n i => if n = 1 then 0 else i) shape (b.drop (b.length - shape.length))

/-! ### the keyful sampler contract -/

section Sampler
variable {ν α β κ γ : Type} [DecidableEq ν]

/-- Python call binding `sampler(key, *pos, **kws)` against the parameter names `sig`: one slot per
    name, `none` = left at its default; `none` result = TypeError (too many positionals, unknown
    keyword, keyword for a slot already filled positionally) -/
def bindArgs (sig : List ν) (pos : List γ) (kws : List (ν × γ)) : Option (List (Option γ)) :=
  if pos.length ≤ sig.length ∧ kws.all (fun kw => (sig.drop pos.length).contains kw.1) then
    some (pos.map some ++ (sig.drop pos.length).map fun nm => kws.lookup nm)
  else none

/-- value of every (bound) parameter at broadcast index b -/
def paramsAt (ps : List (Option (Arr α))) (b : List Nat) : List (Option α) :=
  ps.map fun p => p.map fun a => a.get (bidx a.shape b)

/-- the keyful sampler contract: ONE call returns an array of shape `sample_shape ++ B`
    (B = broadcast of the parameter shapes) whose entry at position `p` is
    `site key p (parameters at broadcast index p.drop |sample_shape|)` -/
def draw (site : κ → List Nat → List (Option α) → β) (sig : List ν) (key : κ)
    (pos : List (Arr α)) (kws : List (ν × Arr α)) (ss : List Nat) : Option (Arr β) :=
  match bindArgs sig pos kws with
  | none => none
  | some ps =>
    match bshape (ps.filterMap fun p => p.map (·.shape)) with
    | none => none
    | some B => some ⟨ss ++ B, fun p => site key p (paramsAt ps (p.drop ss.length))⟩

end Sampler

/-! ### the batching rule -/

/-- an argument as the batch rule sees it under one `jax.vmap` level: the full array and the
    position of the mapped axis (`none` = not mapped) -/
structure BArg (α : Type) where
  arr : Arr α
  bdim : Option Nat

/-- the bound `sample_p` equation: sampler signature, `config.sample_shape`, positional arguments
    and keyword arguments (in the order of the flattened pytree, i.e. sorted by name) -/
structure Site (ν α : Type) where
  sig : List ν
  sampleShape : List Nat
  pos : List (BArg α)
  kws : List (ν × BArg α)

structure Cfg where
  axisAfterSampleShape : Bool   -- fix 72f5066: declared axis = len(config.sample_shape) when batched
  kwargsAsKeywords : Bool       -- fix b0e536c: keyword parameters reach the sampler as keywords
  moveMappedAxes : Bool         -- fix 72f5066: every mapped axis is moved to the front
  deriving DecidableEq, Repr

/-- the code as it is now -/
def Cfg.spec : Cfg := ⟨true, true, true⟩
/-- the code before fix b0e536c -/
def Cfg.preKwargs : Cfg := ⟨true, false, true⟩
/-- the code before fix 72f5066 (and b0e536c) -/
def Cfg.preAxis : Cfg := ⟨false, false, false⟩

section Rule
variable {ν α β κ : Type} [DecidableEq ν]

/-- `vector_args[1:]`: the flattened arguments (positional, then keywords) -/
def Site.flat (s : Site ν α) : List (BArg α) := s.pos ++ s.kws.map (·.2)

/-- `static_dim_length(batch_axes, vector_args)`: size of the first mapped axis, `none` when no
    argument is mapped -/
def staticDimLength (args : List (BArg α)) : Option Nat :=
  args.findSome? fun a => a.bdim.map fun d => a.arr.shape.getD d 0

/-- `arg if axis is None else moveaxis(arg, axis, 0)` -/
def moveArg (cfg : Cfg) (a : BArg α) : Arr α :=
  match a.bdim with
  | some d => if cfg.moveMappedAxes then a.arr.moveFront d else a.arr
  | none => a.arr

/-- `new_sample_shape` -/
def newSampleShape (s : Site ν α) (axisSize : Nat) : List Nat :=
  match staticDimLength s.flat with
  | some _ => s.sampleShape
  | none => if axisSize ≠ 0 then axisSize :: s.sampleShape else s.sampleShape

/-- `out_axes` -/
def outAxis (cfg : Cfg) (s : Site ν α) (axisSize : Nat) : Option Nat :=
  match staticDimLength s.flat with
  | some n =>
      if cfg.axisAfterSampleShape then some s.sampleShape.length
      else if n ≠ 0 ∨ axisSize ≠ 0 then some 0 else none
  | none => if axisSize ≠ 0 then some 0 else none

/-- `_handle_modular_vmap`: the ONE call of the re-bound sampler and the declared output axis -/
def rule (cfg : Cfg) (site : κ → List Nat → List (Option α) → β) (key : κ) (s : Site ν α)
    (axisSize : Nat) : Option (Arr β × Option Nat) :=
  let pos := s.pos.map (moveArg cfg)
  let kws := s.kws.map fun kw => (kw.1, moveArg cfg kw.2)
  let call :=
    if cfg.kwargsAsKeywords then draw site s.sig key pos kws (newSampleShape s axisSize)
    else draw site s.sig key (pos ++ kws.map (·.2)) [] (newSampleShape s axisSize)
  call.map fun r => (r, outAxis cfg s axisSize)

/-- what `jax.vmap` does with a batch-rule result: move the declared axis to the front (it does NOT
    check that the axis has the axis size - observed on the pre-72f5066 code); an undeclared axis
    is broadcast -/
def vmapOut (axisSize : Nat) (r : Arr β) : Option Nat → Option (Arr β)
  | some ax => if ax < r.shape.length then some (r.moveFront ax) else none
  | none => some ⟨axisSize :: r.shape, fun ix => r.get ix.tail⟩

/-- a vectorised sampling site under one `modular_vmap`: lane axis first -/
def vmapSite (cfg : Cfg) (site : κ → List Nat → List (Option α) → β) (key : κ) (s : Site ν α)
    (axisSize : Nat) : Option (Arr β) :=
  (rule cfg site key s axisSize).bind fun r => vmapOut axisSize r.1 r.2

/-! ### the lane-wise reference -/

/-- lane i's slice of an argument -/
def sliceArg (i : Nat) (a : BArg α) : Arr α :=
  match a.bdim with
  | some d => a.arr.take d i
  | none => a.arr

/-- per-lane shape of an argument -/
def laneShape (a : BArg α) : List Nat :=
  match a.bdim with
  | some d => a.arr.shape.eraseIdx d
  | none => a.arr.shape

/-- the un-mapped site applied to lane i's slices -/
def laneDraw (site : κ → List Nat → List (Option α) → β) (key : κ) (s : Site ν α) (i : Nat) :
    Option (Arr β) :=
  draw site s.sig key (s.pos.map (sliceArg i)) (s.kws.map fun kw => (kw.1, sliceArg i kw.2))
    s.sampleShape

/-- where the lane index sits in the position of the one call: after the site's own sample_shape
    when the lanes come from batched parameters, in front otherwise -/
def laneAxis (s : Site ν α) : Nat :=
  match staticDimLength s.flat with
  | some _ => s.sampleShape.length
  | none => 0

/-- what `jax.vmap` guarantees about the arguments of a batch rule: the mapped axis exists and has
    the axis size; keyword names are distinct (a dict) -/
def Site.Valid (s : Site ν α) (n : Nat) : Prop :=
  (∀ a ∈ s.flat, ∀ d, a.bdim = some d → a.arr.shape[d]? = some n) ∧ (s.kws.map (·.1)).Nodup

/-- every mapped argument has the maximal per-lane rank: all mapped arguments have the same
    per-lane rank and no un-mapped argument has a higher one (scalars and constants are fine).
    This is the region OUTSIDE the open finding `vmap-differing-rank`; nothing is required when
    no argument is mapped. -/
def Site.LaneAligned (s : Site ν α) : Prop :=
  ∀ a ∈ s.flat, a.bdim.isSome → ∀ c ∈ s.flat, (laneShape c).length ≤ (laneShape a).length

/-- executable form of `LaneAligned` (driver: is the case inside the region of `rule_lanewise`?) -/
def Site.alignedB (s : Site ν α) : Bool :=
  s.flat.all fun a => !a.bdim.isSome || s.flat.all fun c => (laneShape c).length ≤ (laneShape a).length

/-- executable form of `Valid` -/
def Site.validB (s : Site ν α) (n : Nat) : Bool :=
  (s.flat.all fun a => match a.bdim with
    | some d => a.arr.shape[d]? == some n
    | none => true) && decide (s.kws.map (·.1)).Nodup

/-- broadcast of the per-lane parameter shapes; `none` = the un-mapped site itself raises
    (binding or broadcasting error) -/
def laneBatchShape (s : Site ν α) : Option (List Nat) :=
  (bindArgs s.sig s.pos s.kws).bind fun ps => bshape (ps.filterMap fun p => p.map laneShape)

end Rule

/-- the structured probe: every entry records the position it was drawn at and the parameter
    values it was drawn from -/
def probeSite {α : Type} (_ : Unit) (p : List Nat) (v : List (Option α)) : List Nat × List (Option α) :=
  (p, v)

end Genjax.VmapRule
