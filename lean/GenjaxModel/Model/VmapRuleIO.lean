import GenjaxModel.Model.VmapRuleNest
import GenjaxModel.Model.SeedVecIO
/-!
  driver side of C08, value level of the sample batching rule:

  (vmap-rule (B B B) (name …) (n …) axis_size (arg …) ((name arg) …))
      fields: cfg = (axisAfterSampleShape kwargsAsKeywords moveMappedAxes), B ::= T | F;
              sampler signature (parameter names); the site's own sample_shape; axis size;
              positional arguments; keyword arguments (flattening order = sorted by name)
      arg ::= ((d …) bdim (v …))     shape, mapped axis (N = not mapped), row-major values (opaque atoms)
    -> (ok (aligned B) (valid B) (d …) (((p …) (v|N …)) …))
          shape of the vectorised result (lane axis first) and its entries row-major; every entry =
          (position in the ONE sampler call, value of every signature slot, N = slot left at default)
     | (error bind|broadcast|axis (aligned B) (valid B))
  (vmap-lane  …same fields… i)
    -> (ok (d …) (((p …) (v|N …)) …)) | (error bind|broadcast)
          the un-mapped site on lane i's slices (positions inside the lane's own call)
  (vmap-nest (B B B) (name …) (n …) (size …) (narg …) ((name narg) …))
      a nest of modular_vmaps; sizes and mapped axes are listed INNERMOST level first, the axis of a
      level is relative to the array with all outer levels sliced away
      narg ::= ((d …) (bdim|N …) (v …))
    -> (ok (d …) (((p …) (v|N …)) …))     final array, outermost lane axis first
     | (error bind|broadcast|rank|axis)
-/
namespace Genjax
open VmapRule

private def rdNats (l : List SExp) : Option (List Nat) :=
  l.mapM fun | .atom a => a.toNat? | _ => none

private def rdAtoms (l : List SExp) : Option (List String) :=
  l.mapM fun | .atom a => some a | _ => none

private def rdBool : SExp → Option Bool
  | .atom "T" => some true
  | .atom "F" => some false
  | _ => none

def readBArg : SExp → Option (BArg String)
  | .list [.list sh, .atom bd, .list vs] => do
      let sh ← rdNats sh
      let vs ← rdAtoms vs
      let bd ← if bd == "N" then some none else bd.toNat?.map some
      pure ⟨Arr.ofFlat sh vs "?", bd⟩
  | _ => none

def readSite (sig ss pos kws : List SExp) : Option (Site String String) := do
  let sig ← rdAtoms sig
  let ss ← rdNats ss
  let pos ← pos.mapM readBArg
  let kws ← kws.mapM fun
    | .list [.atom nm, a] => (readBArg a).map fun a => (nm, a)
    | _ => none
  pure ⟨sig, ss, pos, kws⟩

private def showB (b : Bool) : SExp := .atom (if b then "T" else "F")

def showEntries (a : Arr (List Nat × List (Option String))) : SExp :=
  .list (a.entries.map fun e =>
    SExp.list [showNatList e.1, .list (e.2.map fun | some v => SExp.atom v | none => SExp.atom "N")])

/-- which step of the one sampler call fails -/
def callError (cfg : Cfg) (s : Site String String) : String :=
  let pos := s.pos.map (moveArg cfg)
  let kws := s.kws.map fun kw => (kw.1, moveArg cfg kw.2)
  let b := if cfg.kwargsAsKeywords then bindArgs s.sig pos kws
           else bindArgs s.sig (pos ++ kws.map (·.2)) []
  if b.isNone then "bind" else "broadcast"

def readNArg : SExp → Option (NArg String)
  | .list [.list sh, .list bds, .list vs] => do
      let sh ← rdNats sh
      let vs ← rdAtoms vs
      let bds ← bds.mapM fun
        | .atom "N" => some none
        | .atom a => a.toNat?.map some
        | _ => none
      pure ⟨Arr.ofFlat sh vs "?", bds⟩
  | _ => none

def stepVmapNest : SExp → Option SExp
  | .list [.atom "vmap-nest", .list [c1, c2, c3], .list sig, .list ss, .list sizes, .list pos, .list kws] => do
      let cfg : Cfg := ⟨← rdBool c1, ← rdBool c2, ← rdBool c3⟩
      let sig ← rdAtoms sig
      let ss ← rdNats ss
      let sizes ← rdNats sizes
      let pos ← pos.mapM readNArg
      let kws ← kws.mapM fun
        | .list [.atom nm, a] => (readNArg a).map fun a => (nm, a)
        | _ => none
      let s : NSite String String := ⟨sig, ss, pos, kws⟩
      match vmapNestE cfg probeSite () sizes s with
      | .ok R => pure (.list [.atom "ok", showNatList R.shape, showEntries R])
      | .error .bind => pure (.list [.atom "error", .atom "bind"])
      | .error .broadcast => pure (.list [.atom "error", .atom "broadcast"])
      | .error .rank => pure (.list [.atom "error", .atom "rank"])
      | .error .axis => pure (.list [.atom "error", .atom "axis"])
  | _ => none

def stepVmapRule : SExp → Option SExp
  | .list [.atom "vmap-rule", .list [c1, c2, c3], .list sig, .list ss, .atom n, .list pos, .list kws] => do
      let cfg : Cfg := ⟨← rdBool c1, ← rdBool c2, ← rdBool c3⟩
      let s ← readSite sig ss pos kws
      let n ← n.toNat?
      let flags := [SExp.list [.atom "aligned", showB s.alignedB], SExp.list [.atom "valid", showB (s.validB n)]]
      match rule cfg probeSite () s n with
      | none => pure (.list ([.atom "error", .atom (callError cfg s)] ++ flags))
      | some (r, ax) =>
        match vmapOut n r ax with
        | none => pure (.list ([.atom "error", .atom "axis"] ++ flags))
        | some R => pure (.list ([.atom "ok"] ++ flags ++ [showNatList R.shape, showEntries R]))
  | .list [.atom "vmap-lane", .list [_, _, _], .list sig, .list ss, .atom _, .list pos, .list kws, .atom i] => do
      let s ← readSite sig ss pos kws
      let i ← i.toNat?
      match laneDraw probeSite () s i with
      | none =>
          let b := bindArgs s.sig (s.pos.map (sliceArg i)) (s.kws.map fun kw => (kw.1, sliceArg i kw.2))
          pure (.list [.atom "error", .atom (if b.isNone then "bind" else "broadcast")])
      | some L => pure (.list [.atom "ok", showNatList L.shape, showEntries L])
  | e => stepVmapNest e

end Genjax
