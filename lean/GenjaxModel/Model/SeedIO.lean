import GenjaxModel.Model.Seed
import GenjaxModel.Model.SelIO
/-! driver side of C06/C07 -/
namespace Genjax
open Seed

mutual
  partial def readStmt : SExp → Option Stmt
    | .list [.atom "site", .atom id] => id.toNat?.map Stmt.site
    | .list [.atom "cond", .list p] => (readProg p).map Stmt.cond
    | .list [.atom "scan", .list p, .atom n] => do pure (.scan (← readProg p) (← n.toNat?))
    | .atom "other" => some .other
    | _ => none
  partial def readProg : List SExp → Option Prog
    | [] => some .nil
    | s :: rest => do pure (.cons (← readStmt s) (← readProg rest))
end

def showKP : KP → SExp
  | .root => .atom "root"
  | .L k => .list [.atom "L", showKP k]
  | .R k => .list [.atom "R", showKP k]
  | .fold k j => .list [.atom "fold", showKP k, .atom (toString j)]

def stepSeed : SExp → Option SExp
  | .list [.atom "seed", .list p] => do
      let p ← readProg p
      pure (.list (.atom "ok" :: (siteKeys p).map fun e =>
        SExp.list [.atom (toString e.1), .list (e.2.1.map fun (i : Nat) => SExp.atom (toString i)), showKP e.2.2]))
  | _ => none

end Genjax
