/-
  Model of the discrete-HMM baselines of src/genjax/extras/state_space.py in the linear domain
  (the code works with logs; exp of its outputs is compared with these definitions):
  forward_filter (103-163), backward_sample (166-207), compute_sequence_log_prob (251-292).
  States are 0..K-1 (K = init.length), symbols are indices into the rows of `emis`.
  Generic over the number type: runs on `Rat`, reasoned about over a commutative semiring / field.
-/
namespace Genjax.Hmm

variable {K : Type} [Zero K] [One K] [Add K] [Mul K]

def sum : List K → K
  | [] => 0
  | x :: xs => x + sum xs

def get (l : List K) (i : Nat) : K := l.getD i 0
def get2 (m : List (List K)) (i j : Nat) : K := (m.getD i []).getD j 0

/-- one forward step: α'(y) = emis[y][o] * Σ_x α(x) * trans[x][y] -/
def fwdStep (trans emis : List (List K)) (alpha : List K) (o : Nat) : List K :=
  (List.range alpha.length).map fun y =>
    get2 emis y o * sum ((List.range alpha.length).map fun x => get alpha x * get2 trans x y)

/-- α_0(x) = init[x] * emis[x][o_0] -/
def fwdInit (init : List K) (emis : List (List K)) (o : Nat) : List K :=
  (List.range init.length).map fun x => get init x * get2 emis x o

/-- unnormalised forward messages α_0 … α_{T-1} for observations o_0 … o_{T-1} (T ≥ 1) -/
def forwardFrom (trans emis : List (List K)) : List K → List Nat → List (List K)
  | _, [] => []
  | alpha, o :: os =>
    let a := fwdStep trans emis alpha o
    a :: forwardFrom trans emis a os

def forward (init : List K) (trans emis : List (List K)) : List Nat → List (List K)
  | [] => []
  | o :: os => let a := fwdInit init emis o; a :: forwardFrom trans emis a os

/-- marginal likelihood = Σ_x α_{T-1}(x) -/
def marginal (init : List K) (trans emis : List (List K)) (obs : List Nat) : K :=
  sum ((forward init trans emis obs).getLastD [])

/-- joint probability of a state sequence and the observations
    (`compute_sequence_log_prob`, and the iterated `discrete_hmm` step model) -/
def jointFrom (trans emis : List (List K)) : Nat → List Nat → List Nat → K
  | _, [], _ => 1
  | _, _, [] => 1
  | prev, s :: ss, o :: os => get2 trans prev s * get2 emis s o * jointFrom trans emis s ss os

def joint (init : List K) (trans emis : List (List K)) : List Nat → List Nat → K
  | s :: ss, o :: os => get init s * get2 emis s o * jointFrom trans emis s ss os
  | _, _ => 1

/-- all state sequences of length n over states 0..k-1 -/
def seqs (k : Nat) : Nat → List (List Nat)
  | 0 => [[]]
  | n + 1 => (List.range k).flatMap fun s => (seqs k n).map fun r => s :: r

/-- brute-force marginal: sum of the joint over all state sequences -/
def brute (init : List K) (trans emis : List (List K)) (obs : List Nat) : K :=
  sum ((seqs init.length obs.length).map fun ss => joint init trans emis ss obs)

section Field
variable [Div K]

/-- backward kernel of FFBS: P(s_t = x | s_{t+1} = y, obs) = α_t(x) trans[x][y] / Σ_x' α_t(x') trans[x'][y] -/
def back (trans : List (List K)) (alpha : List K) (x y : Nat) : K :=
  get alpha x * get2 trans x y /
    sum ((List.range alpha.length).map fun x' => get alpha x' * get2 trans x' y)

/-- probability that `backward_sample` returns the state sequence `ss` (time order), given the
    forward messages α_0 … α_{T-1}: the last state is drawn ∝ α_{T-1}, then backwards with `back` -/
def ffbsProb (trans : List (List K)) : List (List K) → List Nat → K
  | [a], [s] => get a s / sum a
  | a :: as, s :: s' :: ss => back trans a s s' * ffbsProb trans as (s' :: ss)
  | _, _ => 1

/-- normalised filtering distribution at the last step (exp of the last row of `forward_filter`) -/
def filterLast (init : List K) (trans emis : List (List K)) (obs : List Nat) : List K :=
  let a := (forward init trans emis obs).getLastD []
  a.map (· / sum a)

end Field

end Genjax.Hmm
