import GenjaxModel.Model.Chain
import GenjaxModel.Model.GfiIO
/-! driver side of C18: the recorded un-thinned run is replayed as the kernel (state = step index) -/
namespace Genjax
open Chain

def stepChain : SExp → Option SExp
  | .list [.atom "chain", .atom n, .atom b, .atom k, .list accs] => do
      let n ← n.toNat?
      let b ← b.toNat?
      let k ← k.toNat?
      let accs ← readBools accs
      -- the state after application j is identified by j; accept flag from the record
      let step : Nat → Nat → Nat × Bool := fun j _ => (j, accs.getD j false)
      let r := chain step 0 n b k
      pure (.list [.atom "ok", .list (r.states.map fun (i : Nat) => SExp.atom (toString i)),
                   .list (r.accepts.map showBool), .atom (toString r.nSteps), .atom (toString r.acceptCount)])
  | _ => none

end Genjax
