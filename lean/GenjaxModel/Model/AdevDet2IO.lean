import GenjaxModel.Model.AdevDet2
import GenjaxModel.Model.HmmIO
/-!
  Driver side of C15 (richer deterministic language, `Model/AdevDet2.lean`).

  Command (one line):
    (adev-det2 CFG PROG OUT ENV)
      CFG  ::= code | any | discrete-out | never
      PROG ::= (EQN ...)
      EQN  ::= (prim OP (i ...))
             | (call (i ...) PROG (o ...))
             | (fori n (const-i ...) (carry-i ...) PROG (o ...))
             | (cond c (i ...) PROG o PROG o)
      OP   ::= (const q) | (iconst n) | add | sub | mul | div | neg | (un k) | (step k) | select | gt
             | (disc k) | iadd | isub | imul | igt | tofloat | (mixed k)
      OUT  ::= index into the final environment
      ENV  ::= (DV ...)     DV ::= (f q z)      float with a symbolic-zero tangent
                                 | (f q q')     float with a materialised tangent
                                 | (i n)        discrete (float0 tangent)
  Reply:
    (ok A J AGREE CPS WF (ENTRY ...))
      A      the interpreter's output      (f value tangent sym) | (i n tangent sym); sym = Z if symbolic zero else M
      J      the reference forward mode's  (f value tangent) | (i n tangent)
      AGREE  T iff A (symbolic zero read as 0) = J
      CPS    T iff the CPS interpreter's final environment = the direct-style one
      WF     T iff every discrete entry of the final environment carries the symbolic zero
      ENTRY  the interpreter's final top-level environment, entries as in A

  The abstract functions of the table, over `Rat`:
    un 0 = square, un 1 = cube, un 2 = abs;  step 0 = floor, step 1 = ceil, step 2 = sign;
    disc 0 = truncation toward zero (convert_element_type float -> int32);
    mixed 0 = (trunc x, x - trunc x), mixed 1 = (floor x, x * x).
-/
namespace Genjax.Adev2
open Genjax

def ratTrunc (x : Rat) : Int := if x < 0 then x.ceil else x.floor

def ratSign (x : Rat) : Rat := if x < 0 then -1 else if 0 < x then 1 else 0

def Table.rat : Table Rat where
  un i x := match i with
    | 0 => x * x
    | 1 => x * x * x
    | _ => if x < 0 then -x else x
  un' i x := match i with
    | 0 => 2 * x
    | 1 => 3 * x * x
    | _ => ratSign x
  step i x := match i with
    | 0 => (x.floor : Rat)
    | 1 => (x.ceil : Rat)
    | _ => ratSign x
  disc _ x := ratTrunc x
  mixQ i x := match i with
    | 0 => ratTrunc x
    | _ => x.floor
  mixF i x := match i with
    | 0 => x - (ratTrunc x : Rat)
    | _ => x * x
  mixF' i x := match i with
    | 0 => 1
    | _ => 2 * x

private def readNats (l : List SExp) : Option (List Nat) :=
  l.mapM fun | .atom a => a.toNat? | _ => none

def readOp2 : SExp → Option (Op Rat)
  | .list [.atom "const", .atom c] => (readRat c).map Op.const
  | .list [.atom "iconst", .atom n] => n.toInt?.map Op.iconst
  | .atom "add" => some .add
  | .atom "sub" => some .sub
  | .atom "mul" => some .mul
  | .atom "div" => some .div
  | .atom "neg" => some .neg
  | .list [.atom "un", .atom i] => i.toNat?.map Op.un
  | .list [.atom "step", .atom i] => i.toNat?.map Op.step
  | .atom "select" => some .select
  | .atom "gt" => some .gt
  | .list [.atom "disc", .atom i] => i.toNat?.map Op.disc
  | .atom "iadd" => some .iadd
  | .atom "isub" => some .isub
  | .atom "imul" => some .imul
  | .atom "igt" => some .igt
  | .atom "tofloat" => some .toFloat
  | .list [.atom "mixed", .atom i] => i.toNat?.map Op.mixed
  | _ => none

mutual
partial def readProg2 : List SExp → Option (Prog (Op Rat))
  | [] => some .nil
  | e :: es => do pure (.cons (← readEqn2 e) (← readProg2 es))
partial def readEqn2 : SExp → Option (Eqn (Op Rat))
  | .list [.atom "prim", op, .list ins] => do pure (.prim (← readOp2 op) (← readNats ins))
  | .list [.atom "call", .list ins, .list body, .list outs] => do
      pure (.call (← readNats ins) (← readProg2 body) (← readNats outs))
  | .list [.atom "fori", .atom n, .list consts, .list ins, .list body, .list outs] => do
      pure (.fori (← n.toNat?) (← readNats consts) (← readNats ins) (← readProg2 body) (← readNats outs))
  | .list [.atom "cond", .atom c, .list ins, .list thn, .atom to, .list els, .atom eo] => do
      pure (.cond (← c.toNat?) (← readNats ins) (← readProg2 thn) (← to.toNat?) (← readProg2 els) (← eo.toNat?))
  | _ => none
end

def readDV2 : SExp → Option (DV Rat)
  | .list [.atom "f", .atom v, .atom "z"] => do pure ⟨.flt (← readRat v), .zero⟩
  | .list [.atom "f", .atom v, .atom d] => do pure ⟨.flt (← readRat v), .tan (← readRat d)⟩
  | .list [.atom "i", .atom n] => do pure ⟨.dis (← n.toInt?), .zero⟩
  | _ => none

def readCfg2 : String → Option Cfg
  | "code" => some Cfg.code
  | "any" => some Cfg.anyZero
  | "discrete-out" => some Cfg.discreteOut
  | "never" => some Cfg.noFastPath
  | _ => none

def showDV2 (d : DV Rat) : SExp :=
  let sym := SExp.atom (if d.t.isZero then "Z" else "M")
  match d.p with
  | .flt v => .list [.atom "f", .atom (showRat v), .atom (showRat d.t.mat), sym]
  | .dis n => .list [.atom "i", .atom (toString n), .atom (showRat d.t.mat), sym]

def showRD2 (d : RD Rat) : SExp :=
  match d.p with
  | .flt v => .list [.atom "f", .atom (showRat v), .atom (showRat d.d)]
  | .dis n => .list [.atom "i", .atom (toString n), .atom (showRat d.d)]

def stepAdevDet2 : SExp → Option SExp
  | .list [.atom "adev-det2", .atom cfg, .list prog, .atom out, .list env] => do
      let cfg ← readCfg2 cfg
      let p ← readProg2 prog
      let out ← out.toNat?
      let env ← env.mapM readDV2
      let sem := Op.prim Table.rat
      let a := adevRun cfg sem p out env
      let j := jvpRun sem p out (env.map DV.toRD)
      let envCps := evalAProg cfg sem id p env
      let envDir := runAProg cfg sem p env
      let wf := envDir.all fun d => !d.p.isDis || d.t.isZero
      pure (.list [.atom "ok", showDV2 a, showRD2 j, showBool (a.toRD == j), showBool (envCps == envDir),
        showBool wf, .list (envCps.map showDV2)])
  | _ => none

end Genjax.Adev2
