import GenjaxModel.Model.SeedVec
import GenjaxModel.Model.SeedIO
/-!
  driver side of C07, vectorised sites:
  (seedvec (stmt …))   stmt ::= (vsite id ((n T|F) …levels, outermost first) (own …))
                              | (cond (stmt …)) | (scan (stmt …) n) | other
    -> (ok (id (iters …) keypath (sample_shape …) (returned_shape …)) …)   one entry per sampler call
-/
namespace Genjax
open Seed

def readLevel : SExp → Option Level
  | .list [.atom n, .atom "T"] => n.toNat?.map fun n => (n, true)
  | .list [.atom n, .atom "F"] => n.toNat?.map fun n => (n, false)
  | _ => none

private def readNats (l : List SExp) : Option (List Nat) :=
  l.mapM fun | .atom a => a.toNat? | _ => none

mutual
  partial def readVStmt : SExp → Option VStmt
    | .list [.atom "vsite", .atom id, .list lv, .list own] => do
        pure (.vsite (← id.toNat?) (← lv.mapM readLevel) (← readNats own))
    | .list [.atom "cond", .list p] => (readVProg p).map VStmt.cond
    | .list [.atom "scan", .list p, .atom n] => do pure (.scan (← readVProg p) (← n.toNat?))
    | .atom "other" => some .other
    | _ => none
  partial def readVProg : List SExp → Option VProg
    | [] => some .nil
    | s :: rest => do pure (.cons (← readVStmt s) (← readVProg rest))
end

def showNatList (l : List Nat) : SExp := .list (l.map fun (i : Nat) => SExp.atom (toString i))

def stepSeedVec : SExp → Option SExp
  | .list [.atom "seedvec", .list p] => do
      let p ← readVProg p
      pure (.list (.atom "ok" :: (siteCalls p).map fun c =>
        SExp.list [.atom (toString c.id), showNatList c.iters, showKP c.key,
                   showNatList c.sampleShape, showNatList c.retShape]))
  | _ => none

end Genjax
