/-
  Model of the `state` interpreter (src/genjax/state.py:192-346): collect the values passed to
  `save` / `tag_state` under their names and enclosing namespaces; scan bodies are run under a
  fresh interpreter per iteration and their per-iteration states stacked; vmapped bodies are seen
  (after staging) as the same equations with batched values.
  Mathlib-free, executable.
-/
namespace Genjax.State

/-- a saved value: `atom id idx` = the value of expression `id` at the enclosing iteration/lane
    indices `idx` (outermost first); `stack` = an array axis -/
inductive SV where
  | atom (id : Nat) (idx : List Nat)
  | stack (l : List SV)
  deriving Repr, Inhabited, BEq

mutual
  /-- programs as the interpreter sees them (one entry per jaxpr equation of interest) -/
  inductive SP where
    | tag (name : String) (id : Nat)         -- save(name=value) / tag_state(value, name=name)
    | leafTag (id : Nat)                     -- save(value): stored at the namespace path itself
    | push (ns : String)
    | pop
    | scan (body : SPL) (n : Nat)
    | vmap (body : SPL) (n : Nat)
    | other
  inductive SPL where
    | nil
    | cons (s : SP) (rest : SPL)
end

abbrev Path := List String
/-- collected state as a path map (nested dicts flattened; insertion order kept) -/
abbrev Store := List (Path × SV)

def isPrefix : Path → Path → Bool
  | [], _ => true
  | _ :: _, [] => false
  | a :: as, b :: bs => a == b && isPrefix as bs

/-- `d[path][name] = value`: a later write to the same path replaces the earlier one (and anything
    stored below it) -/
def Store.set (s : Store) (p : Path) (v : SV) : Store :=
  (s.filter fun e => !(isPrefix p e.1)) ++ [(p, v)]

/-- `collected[name] = sub-dict`: replace everything under the top-level key `name` -/
def Store.replaceTop (s : Store) (name : String) (entries : Store) : Store :=
  (s.filter fun e => !(e.1.head? == some name)) ++ entries

structure St where
  store : Store
  ns : List String           -- namespace stack, outermost first
  deriving Inhabited

/-- which variant: `nsAcrossScan = false` is the code as it is (scan states merged at the root by
    top-level name); `true` is what the property demands (stored under the enclosing namespaces) -/
structure Cfg where
  nsAcrossScan : Bool

/-- stack the per-iteration stores of a scan body (all iterations have the keys of the first) -/
def stackStores (iters : List Store) : Store :=
  match iters with
  | [] => []
  | first :: _ =>
    first.map fun e =>
      (e.1, SV.stack (iters.map fun s => ((s.find? fun e' => e'.1 == e.1).map (·.2)).getD (SV.stack [])))

def topNames (s : Store) : List String :=
  (s.filterMap fun e => e.1.head?).eraseDups

/-- value of expression `id` batched over the enclosing lanes -/
def batched (id : Nat) (idx : List Nat) : List Nat → SV
  | [] => .atom id idx
  | n :: rest => .stack ((List.range n).map fun l => batched id (idx ++ [l]) rest)

/-- merge the stacked states of a scan into the collected state -/
def mergeScan (cfg : Cfg) (st : St) (stacked : Store) : St :=
  if cfg.nsAcrossScan then
    { st with store := stacked.foldl (fun s e => s.set (st.ns ++ e.1) e.2) st.store }
  else
    let step := fun (s : Store) (name : String) =>
      s.replaceTop name (stacked.filter fun e => e.1.head? == some name)
    { st with store := (topNames stacked).foldl step st.store }

mutual
  /-- run one equation. `idx` = enclosing scan-iteration indices; `lanes` = enclosing vmap sizes
      (a value saved under vmaps is batched over all lane indices, outermost vmap first). -/
  def SP.exec (cfg : Cfg) : SP → List Nat → List Nat → St → Option St
    | .tag name id, idx, lanes, st =>
        some { st with store := st.store.set (st.ns ++ [name]) (batched id idx lanes) }
    | .leafTag id, idx, lanes, st =>
        if st.ns.isEmpty then none      -- "Leaf mode save() requires being inside a namespace"
        else some { st with store := st.store.set st.ns (batched id idx lanes) }
    | .push ns, _, _, st => some { st with ns := st.ns ++ [ns] }
    | .pop, _, _, st => if st.ns.isEmpty then none else some { st with ns := st.ns.dropLast }
    | .scan body n, idx, lanes, st => do
        -- fresh interpreter (empty store, empty namespace stack) per iteration
        let iters ← (List.range n).mapM fun i =>
          (body.exec cfg (idx ++ [i]) lanes { store := [], ns := [] }).map (·.store)
        pure (mergeScan cfg st (stackStores iters))
    | .vmap body n, idx, lanes, st => body.exec cfg idx (lanes ++ [n]) st
    | .other, _, _, st => some st
  def SPL.exec (cfg : Cfg) : SPL → List Nat → List Nat → St → Option St
    | .nil, _, _, st => some st
    | .cons s rest, idx, lanes, st => do
        let st' ← s.exec cfg idx lanes st
        rest.exec cfg idx lanes st'
end

/-- `state(f)(*args)[1]` -/
def collect (cfg : Cfg) (p : SPL) : Option Store :=
  (p.exec cfg [] [] { store := [], ns := [] }).map (·.store)

end Genjax.State
