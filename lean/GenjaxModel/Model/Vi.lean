/-
  Model of the VI objective and optimiser (src/genjax/inference/vi.py:50-144) in the linear domain.
-/
namespace Genjax.Vi

variable {K : Type} [Add K] [Mul K]

/-- gradient ascent as in `optimize_vi`: params_{i+1} = params_i + lr · grad_i(params_i);
    the history records params_{i+1} -/
def optimize (grad : Nat → K → K) (lr : K) : Nat → Nat → K → List K
  | 0, _, _ => []
  | n + 1, i, p =>
    let p' := p + lr * grad i p
    p' :: optimize grad lr n (i + 1) p'

def iter (grad : Nat → K → K) (lr : K) : Nat → K → K
  | 0, p => p
  | n + 1, p => let q := iter grad lr n p; q + lr * grad n q

end Genjax.Vi
