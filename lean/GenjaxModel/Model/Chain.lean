/-
  Model of `chain` (src/genjax/inference/mcmc.py:581-663): scan the kernel `n` times collecting
  every state and its accept flag, then keep the entries at `arange(burn_in, n, thin)`.
  Mathlib-free, executable; the kernel and its per-step randomness are abstract
  (`step j s` = kernel application number `j`, which under `seed` depends only on (key, j)).
-/
namespace Genjax.Chain

variable {σ : Type}

/-- all iterates: element `j` is the state after `j+1` kernel applications, with its accept flag -/
def run (step : Nat → σ → σ × Bool) : Nat → Nat → σ → List (σ × Bool)
  | 0, _, _ => []
  | n + 1, j, s =>
    let r := step j s
    r :: run step n (j + 1) r.1

/-- `jnp.arange(start, stop, stepsize)` for a positive step, with fuel -/
def arangeFuel (stop k : Nat) : Nat → Nat → List Nat
  | 0, _ => []
  | fuel + 1, i => if i < stop then i :: arangeFuel stop k fuel (i + k) else []

def arange (start stop k : Nat) : List Nat := arangeFuel stop k stop start

structure Result (σ : Type) where
  states : List σ
  accepts : List Bool
  nSteps : Nat
  acceptCount : Nat      -- acceptance_rate = acceptCount / nSteps

/-- `chain(kernel)(init, n_steps=n, burn_in=b, autocorrelation_resampling=k)` (one chain) -/
def chain [Inhabited σ] (step : Nat → σ → σ × Bool) (init : σ) (n b k : Nat) : Result σ :=
  let all := run step n 0 init
  let idx := arange b n k
  let sel := idx.map fun i => all.getD i (default, false)
  { states := sel.map (·.1)
    accepts := sel.map (·.2)
    nSteps := idx.length
    acceptCount := (sel.filter (·.2)).length }

/-- the state after `m` kernel applications (the specification's notion of "visited after step m") -/
def iter (step : Nat → σ → σ × Bool) : Nat → σ → σ
  | 0, s => s
  | m + 1, s => (step m (iter step m s)).1

/-- was application number `m` (0-based) accepted -/
def accepted (step : Nat → σ → σ × Bool) (m : Nat) (s : σ) : Bool := (step m (iter step m s)).2

end Genjax.Chain
