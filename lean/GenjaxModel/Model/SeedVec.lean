import GenjaxModel.Model.Seed
import GenjaxModel.Model.Vmap
/-
  Vectorised sample sites in the Seed model (C07).

  A sample site under `modular_vmap` reaches the Seed interpreter as ONE `sample_p` equation: the
  batching rule (src/genjax/pjax.py, `VmapBatchHandler._handle_modular_vmap`) has rebound the
  primitive with a new sampler configuration,
      n = static_dim_length(batch_axes, vector_args)            -- None: no parameter is batched
      new_sample_shape = (() if n is not None else (axis_size,)) + config.sample_shape
      result = create_sample_primitive(config.with_sample_shape(new_sample_shape))(*moved_args)
      out_axes = len(config.sample_shape) if n is not None else 0
  and nested vmaps apply the rule innermost first.  Seed then splits the running key ONCE for that
  equation and calls the keyful sampler ONCE with the accumulated `sample_shape`; the returned
  array has shape  sample_shape ++ parameter-batch-shape (++ event shape, omitted), so every lane
  reads its own entries of one joint draw.  Mathlib-free, executable.
-/
namespace Genjax.Seed

/-- one level of `modular_vmap` around a site: its size and whether at that level some parameter
    of the site carries the mapped axis -/
abbrev Level := Nat × Bool

/-- sampler state while the batching rule is applied level by level:
    `ss` = `config.sample_shape`, `pb` = batch shape of the (moved-to-front) parameters -/
structure VShape where
  ss : List Nat
  pb : List Nat
  deriving DecidableEq, Repr

/-- one application of the batching rule (size `n`, `batched` = `n is not None` in the code) -/
def rebind (lv : Level) (s : VShape) : VShape :=
  if lv.2 then { ss := s.ss, pb := lv.1 :: s.pb } else { ss := lv.1 :: s.ss, pb := s.pb }

/-- the output axis the rule declares as the mapped one at that application -/
def declaredAxis (lv : Level) (s : VShape) : Nat := if lv.2 then s.ss.length else 0

/-- all levels, `levels` listed outermost first, hence applied from the right -/
def rebindAll (levels : List Level) (own : List Nat) : VShape :=
  levels.foldr rebind { ss := own, pb := [] }

/-- shape of the array the keyful sampler returns (event shape omitted) -/
def VShape.ret (s : VShape) : List Nat := s.ss ++ s.pb

/-- a call of a keyful sampler as performed by the Seed interpreter -/
structure Call where
  id : Nat
  iters : List Nat            -- iteration indices of the enclosing scans
  key : KP
  sampleShape : List Nat      -- the `sample_shape=` keyword of the call
  retShape : List Nat         -- shape of the returned array (event shape omitted)
  deriving DecidableEq, Repr

mutual
  /-- seeded programs with vectorised sites -/
  inductive VStmt where
    /-- a sample site with its own `sample_shape`, under the vmaps `levels` (outermost first;
        `[]` = an ordinary site) -/
    | vsite (id : Nat) (levels : List Level) (own : List Nat)
    | cond (taken : VProg)
    | scan (body : VProg) (n : Nat)
    | other
  inductive VProg where
    | nil
    | cons (s : VStmt) (rest : VProg)
end

mutual
  /-- what Seed sees: a vectorised site is one site -/
  def VStmt.erase : VStmt → Stmt
    | .vsite id _ _ => .site id
    | .cond taken => .cond taken.erase
    | .scan body n => .scan body.erase n
    | .other => .other
  def VProg.erase : VProg → Prog
    | .nil => .nil
    | .cons s rest => .cons s.erase rest.erase
end

mutual
  /-- the sampler calls of one run in execution order, and the final running key -/
  def VStmt.calls : VStmt → KP → List Nat → List Call × KP
    | .vsite id levels own, k, it =>
        let s := rebindAll levels own
        ([{ id := id, iters := it, key := .R k, sampleShape := s.ss, retShape := s.ret }], .L k)
    | .cond taken, k, it => ((taken.calls (.R k) it).1, .L k)
    | .scan body n, k, it =>
        ((List.range n).flatMap fun j => (body.calls (.fold (.R k) j) (it ++ [j])).1, .L k)
    | .other, k, _ => ([], k)
  def VProg.calls : VProg → KP → List Nat → List Call × KP
    | .nil, k, _ => ([], k)
    | .cons s rest, k, it =>
        let (a, k') := s.calls k it
        let (b, k'') := rest.calls k' it
        (a ++ b, k'')
end

/-- `seed(f)(key, …)`: all sampler calls of the run -/
def siteCalls (p : VProg) : List Call := (p.calls .root []).1

/-- all multi-indices of an array of the given shape, row-major -/
def indices : List Nat → List (List Nat)
  | [] => [[]]
  | n :: s => (List.range n).flatMap fun i => (indices s).map (i :: ·)

/-- the lane coordinates (one index per level, outermost first) that sit at unbatched levels -/
def unbIdx : List Level → List Nat → List Nat
  | (_, false) :: lv, i :: ls => i :: unbIdx lv ls
  | (_, true) :: lv, _ :: ls => unbIdx lv ls
  | _, _ => []

/-- the lane coordinates that sit at batched levels -/
def batIdx : List Level → List Nat → List Nat
  | (_, true) :: lv, i :: ls => i :: batIdx lv ls
  | (_, false) :: lv, _ :: ls => batIdx lv ls
  | _, _ => []

/-- index, in the array returned by the ONE sampler call, of the entry that lane `ls` reads at
    position `o` of the site's own sample_shape -/
def lanePos (levels : List Level) (ls : List Nat) (o : List Nat) : List Nat :=
  unbIdx levels ls ++ o ++ batIdx levels ls

/-- every scalar draw of the run as (key of the call, position in the returned array) -/
def allDraws (p : VProg) : List (KP × List Nat) :=
  (siteCalls p).flatMap fun c => (indices c.retShape).map fun ix => (c.key, ix)

end Genjax.Seed
