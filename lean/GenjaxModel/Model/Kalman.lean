/-
  Scalar model of kalman_filter's predict/update recursion (src/genjax/extras/state_space.py:434-530)
  (d_state = d_obs = 1; the matrix case is tied to the code by the dense-Gaussian oracle of the
  correspondence run only).
-/
namespace Genjax.Kalman

variable {K : Type} [Add K] [Sub K] [Mul K] [Div K]

structure Gauss (K : Type) where
  m : K      -- mean
  P : K      -- variance

/-- predicted_mean = A m, predicted_cov = A P Aᵀ + Q -/
def predict (a q : K) (s : Gauss K) : Gauss K := ⟨a * s.m, a * s.P * a + q⟩

/-- innovation covariance S = C P Cᵀ + R -/
def innovCov (c r : K) (s : Gauss K) : K := c * s.P * c + r

/-- kalman gain = P Cᵀ S⁻¹; filtered mean/cov as in the code -/
def update (c r y : K) (s : Gauss K) : Gauss K :=
  let S := innovCov c r s
  let k := s.P * c / S
  ⟨s.m + k * (y - c * s.m), s.P - k * c * s.P⟩

end Genjax.Kalman
