import GenjaxModel.Model.Gfi
import GenjaxModel.Model.GfiPaths
import GenjaxModel.Model.Smc
/-
  The generative function interface of `Model/Gfi.lean` with GENUINE randomness: every
  Distribution site draws from a finite-support distribution (a weighted list, `Smc.FinDist`),
  so that "the choices of `simulate` are distributed according to the density `assess` computes"
  (second half of C01) and "E[exp weight] = marginal likelihood of the constraints" (C02) are
  statements about exact finite sums.

    * `PD K`            finite-support primitives: support list and probability mass
    * `GF.simD`         `GF.simulate` in the distribution monad   (same five-constructor recursion)
    * `GF.assessP`      `GF.assess` in the LINEAR domain: the PRODUCT of the site masses
    * `GF.generateD`    `GF.generate` in the distribution monad, weight in the linear domain
    * `PD.ofDraw`       the point-mass primitives of a probe sampler: `simD` collapses to `simulate`

  Mathlib-free and executable (runs on `Rat`).
-/
namespace Genjax

-- (DecidableEq for CM, CML is derived in Model/GfiPaths.lean)

open Smc

/-- finite-support primitive distributions: `support d params` lists the values distribution `d`
    can take, `pm d params v` is the probability mass of `v` -/
structure PD (K : Type) where
  support : Nat → List Val → List Val
  pm : Nat → List Val → Val → K

namespace Smc.FinDist
variable {K : Type} [One K] [Mul K] {α β : Type}

/-- the code returns `a` -/
def pureO (a : α) : FinDist K (Option α) := FinDist.pure (some a)
/-- the code raises -/
def failO : FinDist K (Option α) := FinDist.pure none
/-- sequencing of computations that may raise (`none` is absorbing) -/
def bindO (d : FinDist K (Option α)) (f : α → FinDist K (Option β)) : FinDist K (Option β) :=
  FinDist.bind d fun o => match o with
    | none => FinDist.pure none
    | some a => f a

end Smc.FinDist

open Smc.FinDist

section Loops
variable {K : Type} [One K] [Mul K] {α β : Type}

/-- `forLanes` in the distribution monad -/
def forLanesD (f : Nat → α → FinDist K (Option β)) : Nat → List α → FinDist K (Option (List β))
  | _, [] => pureO []
  | i, a :: as => bindO (f i a) fun b => bindO (forLanesD f (i + 1) as) fun bs => pureO (b :: bs)

/-- `forSteps` in the distribution monad -/
def forStepsD (f : Val → Nat → α → FinDist K (Option (β × Val))) :
    Val → Nat → List α → FinDist K (Option (List β × Val))
  | c, _, [] => pureO ([], c)
  | c, i, a :: as => bindO (f c i a) fun p =>
      bindO (forStepsD f p.2 (i + 1) as) fun q => pureO (p.1 :: q.1, q.2)

def prodK : List K → K
  | [] => 1
  | x :: xs => x * prodK xs

end Loops

/-- the point-mass primitives of the probe sampler `P.draw` -/
def PD.ofDraw {K R : Type} [One K] (P : Prims R) : PD K where
  support := fun d a => [P.draw d a]
  pm := fun _ _ _ => 1

section Ops
variable {K : Type} [One K] [Mul K] {R : Type} [Zero R] [Add R] [Neg R]
variable (pd : PD K) (P : Prims R) (cfg : Cfg)

mutual
  /-- `simulate(*args)`: the distribution over traces (`none` = the code raises).  The stored
      scores are the log densities `P.lp`, the probabilities the masses `pd.pm`. -/
  def GF.simD : GF → List Val → FinDist K (Option (Tr R))
    | .dist d, args =>
        (pd.support d args).map fun v => (some (.leaf v (-(P.lp d args v))), pd.pm d args v)
    | .fn body, args =>
        bindO (body.simD args .nil 0) fun r => pureO (.fn r.1 r.2.1 r.2.2)
    | .vmap g axes n, args =>
        bindO (forLanesD (fun i (_ : Unit) => g.simD (laneArgs axes args i)) 0 (List.replicate n ()))
          fun ts => pureO (.vec (TrL.ofList ts))
    | .scan g n, args =>
        bindO (forStepsD (fun c i (_ : Unit) =>
            bindO (g.simD [c, (args.getD 1 .nil).nth i]) fun t => pureO (t, t.retval.fst))
          (args.getD 0 .nil) 0 (List.replicate n ()))
          fun r => pureO (.scan (TrL.ofList r.1) r.2)
    | .cond t f, args =>
        bindO (t.simD (args.drop 1)) fun a =>
        bindO (f.simD (args.drop 1)) fun b =>
        pureO (.cond (args.getD 0 .nil).truthy a b)
  def Body.simD : Body → List Val → TrL R → R → FinDist K (Option (TrL R × Val × R))
    | .ret e, env, subs, s => pureO (subs, e.eval env, s)
    | .call addr g es rest, env, subs, s =>
      if (subs.find? addr).isSome then failO else
        bindO (g.simD (es.map (·.eval env))) fun t =>
          rest.simD (env ++ [t.retval]) (subs.snoc addr t) (s + t.score)
end

mutual
  /-- `assess` in the linear domain: (product of the site masses, retval); `none` = the code raises.
      The same recursion as `GF.assess` with `0, +, sumR` replaced by `1, *, prodK`. -/
  def GF.assessP : GF → CM → List Val → Option (K × Val)
    | .dist d, .leaf v, args => some (pd.pm d args v, v)
    | .dist _, _, _ => none
    | .fn body, .node x, args => body.assessP x args []
    | .fn _, _, _ => none
    | .vmap g axes n, .lanes x, args => do
        lenIs x.toList n
        let rs ← forLanes (fun i xi => g.assessP xi (laneArgs axes args i)) 0 x.toList
        pure (prodK (rs.map (·.1)), Val.ofList (rs.map (·.2)))
    | .vmap _ _ _, _, _ => none
    | .scan g n, .lanes x, args => do
        lenIs x.toList n
        let (rs, c) ← forSteps (fun c i xi => do
            let (p, r) ← g.assessP xi [c, (args.getD 1 .nil).nth i]
            pure ((p, r.snd), r.fst)) (args.getD 0 .nil) 0 x.toList
        pure (prodK (rs.map (·.1)), Val.pair c (Val.ofList (rs.map (·.2))))
    | .scan _ _, _, _ => none
    | .cond t f, x, args => do
        let (p, r) ← t.assessP x (args.drop 1)
        let (p', r') ← f.assessP x (args.drop 1)
        let c := (args.getD 0 .nil).truthy
        pure (if c then p else p', if c then r else r')
  def Body.assessP : Body → CML → List Val → List String → Option (K × Val)
    | .ret e, _, env, _ => some (1, e.eval env)
    | .call addr g es rest, x, env, seen =>
      if seen.contains addr then none else
      match x.find? addr with
      | none => none
      | some sub => do
          let (p, r) ← g.assessP sub (es.map (·.eval env))
          let (p', r') ← rest.assessP x (env ++ [r]) (addr :: seen)
          pure (p * p', r')
end

mutual
  /-- `generate(x, *args)`: the distribution over (trace, weight), the weight in the linear domain
      (product of the masses of the constrained sites; unconstrained sites are drawn, factor 1) -/
  def GF.generateD : GF → Option CM → List Val → FinDist K (Option (Tr R × K))
    | .dist d, none, args =>
        (pd.support d args).map fun v => (some (.leaf v (-(P.lp d args v)), 1), pd.pm d args v)
    | .dist d, some (.leaf v), args => pureO (.leaf v (-(P.lp d args v)), pd.pm d args v)
    | .dist _, some _, _ => failO
    | .fn body, none, args =>
        bindO (body.simD pd P args .nil 0) fun r => pureO (.fn r.1 r.2.1 r.2.2, 1)
    | .fn body, some (.node x), args =>
        bindO (body.generateD x args .nil 0 1) fun r => pureO (.fn r.1 r.2.1 r.2.2.1, r.2.2.2)
    | .fn _, some _, _ => failO
    | .vmap g axes n, none, args =>
        if cfg.vmapEmptyConstraint || !axes.any id then
          bindO (forLanesD (fun i (_ : Unit) => g.generateD none (laneArgs axes args i)) 0
              (List.replicate n ()))
            fun ts => pureO (.vec (TrL.ofList (ts.map (·.1))), prodK (ts.map (·.2)))
        else failO
    | .vmap g axes n, some (.lanes xs), args =>
        if xs.toList.length = n then
          bindO (forLanesD (fun i xi => g.generateD (some xi) (laneArgs axes args i)) 0 xs.toList)
            fun ts => pureO (.vec (TrL.ofList (ts.map (·.1))), prodK (ts.map (·.2)))
        else failO
    | .vmap _ _ _, some _, _ => failO
    | .scan g n, none, args =>
        bindO (forStepsD (fun c i (_ : Unit) =>
            bindO (g.generateD none [c, (args.getD 1 .nil).nth i]) fun tw =>
              pureO (tw, tw.1.retval.fst))
          (args.getD 0 .nil) 0 (List.replicate n ()))
          fun r => pureO (.scan (TrL.ofList (r.1.map (·.1))) r.2, prodK (r.1.map (·.2)))
    | .scan g n, some (.lanes xs), args =>
        if xs.toList.length = n then
          bindO (forStepsD (fun c i xi =>
              bindO (g.generateD (some xi) [c, (args.getD 1 .nil).nth i]) fun tw =>
                pureO (tw, tw.1.retval.fst))
            (args.getD 0 .nil) 0 xs.toList)
            fun r => pureO (.scan (TrL.ofList (r.1.map (·.1))) r.2, prodK (r.1.map (·.2)))
        else failO
    | .scan _ _, some _, _ => failO
    | .cond t f, none, args =>
        bindO (t.simD pd P (args.drop 1)) fun a =>
        bindO (f.simD pd P (args.drop 1)) fun b =>
        pureO (.cond (args.getD 0 .nil).truthy a b, 1)
    | .cond t f, some x, args =>
        bindO (t.generateD (some x) (args.drop 1)) fun aw =>
        bindO (f.generateD (some x) (args.drop 1)) fun bw =>
        pureO (.cond (args.getD 0 .nil).truthy aw.1 bw.1,
          if (args.getD 0 .nil).truthy then aw.2 else bw.2)
  def Body.generateD : Body → CML → List Val → TrL R → R → K →
      FinDist K (Option (TrL R × Val × R × K))
    | .ret e, _, env, subs, s, w => pureO (subs, e.eval env, s, w)
    | .call addr g es rest, x, env, subs, s, w =>
      if (subs.find? addr).isSome then failO else
        bindO (g.generateD (x.find? addr) (es.map (·.eval env))) fun tw =>
          rest.generateD x (env ++ [tw.1.retval]) (subs.snoc addr tw.1) (s + tw.1.score) (w * tw.2)
end

end Ops

/-! ### observables used in the statements (exact expectations) -/

section Obs
variable {K : Type} [Zero K] [One K] {R : Type}

/-- a test function on outcomes that may be "the code raised": raising counts 0 -/
def optK {α : Type} (f : α → K) : Option α → K
  | none => 0
  | some a => f a

/-- mass and return value reported by `assessP`, as the value `p · ψ(retval)` (0 if it raises) -/
def massOf [Mul K] (o : Option (K × Val)) (ψ : Val → K) : K :=
  match o with
  | none => 0
  | some pr => pr.1 * ψ pr.2

/-- indicator (times a function of the return value) of "the trace's choice map is `x`" -/
def choicesAre (x : CM) (ψ : Val → K) (t : Tr R) : K :=
  if t.choices = some x then ψ t.retval else 0

end Obs

/-! ### "the trace agrees with the constraints" (statement of C02) -/

section Agree
variable {K : Type} [Zero K] [One K] [Mul K] {R : Type}

mutual
  /-- indicator (1 / 0) that the trace takes the constrained value at every Distribution site the
      constraint map `x` addresses: dict constraints are looked up by address (`find?`, as the
      Generate handler does; addresses the constraint does not mention are free), vectorised
      constraints are positional -/
  def Tr.agS : Tr R → CM → K
    | .leaf v' _, .leaf v => if v = v' then 1 else 0
    | .fn subs _ _, .node xs => subs.agreeAll xs
    | .vec lanes, .lanes xs => lanes.agreePos xs
    | .scan steps _, .lanes xs => steps.agreePos xs
    | .cond c a b, x => if c then a.agS x else b.agS x
    | _, _ => 0
  def TrL.agreeAll : TrL R → CML → K
    | .nil, _ => 1
    | .cons k t rest, xs =>
        (match xs.find? k with
         | none => 1
         | some x => t.agS x) * rest.agreeAll xs
  def TrL.agreePos : TrL R → CML → K
    | .nil, .nil => 1
    | .cons _ t rest, .cons _ x xr => t.agS x * rest.agreePos xr
    | _, _ => 0
end

/-- agreement with an optional constraint (`none` = unconstrained) -/
def Tr.agT (t : Tr R) : Option CM → K
  | none => 1
  | some x => t.agS x

end Agree

mutual
  /-- the complete choice map `y` (first argument) takes the constrained value at every address the
      constraint map `x` (second argument) mentions: the choice-map form of `Tr.agS`
      ("`y` is a completion of `x`") -/
  def CM.agreeWith : CM → CM → Bool
    | .leaf v', .leaf v => decide (v = v')
    | .node ys, .node xs => ys.agreeAllWith xs
    | .lanes ys, .lanes xs => ys.agreePosWith xs
    | _, _ => false
  def CML.agreeAllWith : CML → CML → Bool
    | .nil, _ => true
    | .cons k y rest, xs =>
        (match xs.find? k with
         | none => true
         | some x => y.agreeWith x) && rest.agreeAllWith xs
  def CML.agreePosWith : CML → CML → Bool
    | .nil, .nil => true
    | .cons _ y rest, .cons _ x xr => y.agreeWith x && rest.agreePosWith xr
    | _, _ => false
end

end Genjax
