import GenjaxModel.Model.Gfi
/-
  Addresses of single random choices as paths into choice maps (used by the value-level
  theorems of C02, C03, C04).  A path alternates dictionary keys (`Fn` call-site addresses) and
  positional indices (lanes of a Vmap / steps of a Scan).  Mathlib-free and executable.
-/
namespace Genjax

deriving instance DecidableEq for CM, CML

/-- one step of an address: a dictionary key or a lane / step index -/
inductive Seg where
  | key (k : String)
  | idx (i : Nat)
  deriving DecidableEq, Repr, Inhabited

abbrev Path := List Seg

/-- the dictionary keys of a path, in order (lane / step indices dropped) -/
def Path.keys : Path → List String
  | [] => []
  | .key k :: p => k :: Path.keys p
  | .idx _ :: p => Path.keys p

mutual
  /-- the value stored at a path of a choice map: dict nodes are resolved with `find?` (first
      binding), vectorised maps positionally; `none` = the path does not end in a leaf -/
  def CM.leafAt : CM → Path → Option Val
    | .leaf v, [] => some v
    | .leaf _, _ :: _ => none
    | .node kids, .key k :: p => kids.leafAtKey k p
    | .node _, _ => none
    | .lanes kids, .idx i :: p => kids.leafAtIdx i p
    | .lanes _, _ => none
  def CML.leafAtKey : CML → String → Path → Option Val
    | .nil, _, _ => none
    | .cons k v rest, a, p => if a = k then v.leafAt p else rest.leafAtKey a p
  def CML.leafAtIdx : CML → Nat → Path → Option Val
    | .nil, _, _ => none
    | .cons _ v _, 0, p => v.leafAt p
    | .cons _ _ rest, i + 1, p => rest.leafAtIdx i p
end

/-- the same for an optional map (`none` = Python `None`: no constraint / no discard) -/
def CM.leafAt? (x : Option CM) (p : Path) : Option Val :=
  match x with
  | some c => c.leafAt p
  | none => none

/-- The link between a selection and the address of a choice: the remainder of the selection is
    threaded along the `key` segments exactly as `Body.regenerate` does (`Sel.matchAddr`), lane and
    step indices do not consume the selection (Vmap / Scan hand the same selection to every lane),
    and the decision is taken at the leaf (`Sel.leaf`, i.e. `() in sel`). -/
def Sel.selectedPath (s : Sel) (p : Path) : Bool := s.selected (Path.keys p)

end Genjax
