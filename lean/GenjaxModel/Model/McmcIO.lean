import GenjaxModel.Model.Mcmc
import GenjaxModel.Model.HmmIO
/-! driver side of C09 -/
namespace Genjax
open Mcmc

def stepMcmc : SExp → Option SExp
  | .list [.atom "mh-accept", .atom lu, .atom lw] => do
      pure (.list [.atom "ok", showBool (accept (← readRat lu) (← readRat lw))])
  | .list [.atom "leapfrog", .atom eps, .atom n, .list x, .list p] => do
      let eps ← readRat eps
      let n ← n.toNat?
      let x ← readRats x
      let p ← readRats p
      -- quadratic potential: force field g(q) = -q
      let g : List Rat → List Rat := fun q => q.map (- ·)
      let r := leapfrogN g eps n (x, p)
      let back := flip (leapfrogN g eps n (flip r))
      pure (.list [.atom "ok", showRats r.1, showRats r.2, showBool (back == (x, p))])
  | _ => none

end Genjax
