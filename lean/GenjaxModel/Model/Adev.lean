/-
  Model of the ADEV gradient estimators (src/genjax/adev/__init__.py) over dual numbers:
  a `Dual` is (value, tangent); a continuation maps an outcome to the Dual of the rest of the
  program. Primitives: flip_enum (1231-1289), REINFORCE (1033-1126), flip_mvd (1295-1380),
  enumeration over a finite categorical (1428-1463); deterministic code = dual arithmetic
  (603-632). Generic over the number type (runs on `Rat`, reasoned about over a field).
-/
namespace Genjax.Adev

variable {K : Type} [Zero K] [One K] [Add K] [Sub K] [Mul K] [Div K] [Neg K]

structure Dual (K : Type) where
  v : K
  d : K
  deriving Repr, DecidableEq

namespace Dual
def add (a b : Dual K) : Dual K := ⟨a.v + b.v, a.d + b.d⟩
def sub (a b : Dual K) : Dual K := ⟨a.v - b.v, a.d - b.d⟩
def mul (a b : Dual K) : Dual K := ⟨a.v * b.v, a.d * b.v + a.v * b.d⟩
def neg (a : Dual K) : Dual K := ⟨-a.v, -a.d⟩
def const (c : K) : Dual K := ⟨c, 0⟩
end Dual

/-- flip_enum: exact expectation p·k(T) + (1−p)·k(F) evaluated in dual arithmetic -/
def flipEnum (p kT kF : Dual K) : Dual K :=
  Dual.add (Dual.mul p kT) (Dual.mul (Dual.sub (Dual.const 1) p) kF)

/-- probability (as a dual) of outcome b of a flip with parameter p -/
def flipProb (p : Dual K) (b : Bool) : Dual K := if b then p else Dual.sub (Dual.const 1) p

/-- REINFORCE for the outcome b actually drawn: (k_b.v, k_b.d + k_b.v · d log p_b) -/
def reinforce (pb kb : Dual K) : Dual K := ⟨kb.v, kb.d + kb.v * (pb.d / pb.v)⟩

/-- flip_mvd for the outcome b actually drawn: value k_b.v, tangent k_b.d ± (k_¬b.v − k_b.v)·p' -/
def mvd (b : Bool) (p kT kF : Dual K) : Dual K :=
  let kb := if b then kT else kF
  let other := if b then kF else kT
  ⟨kb.v, kb.d + (if b then -(other.v - kb.v) else (other.v - kb.v)) * p.d⟩

/-- expectation over the outcome of a flip with probability q of a quantity x_T / x_F -/
def Eflip (q xT xF : K) : K := q * xT + (1 - q) * xF

def sumD : List (Dual K) → Dual K
  | [] => ⟨0, 0⟩
  | x :: xs => Dual.add x (sumD xs)

/-- enumeration over a finite distribution with probabilities `ps` (duals) and continuation
    values `ks`: Σ p_i · k_i in dual arithmetic -/
def enumAll (ps ks : List (Dual K)) : Dual K := sumD (List.zipWith Dual.mul ps ks)

def sumK : List K → K
  | [] => 0
  | x :: xs => x + sumK xs

/-- expected tangent of REINFORCE over all outcomes: Σ p_i.v · (reinforce p_i k_i).d -/
def reinforceExpectedTangent (ps ks : List (Dual K)) : K :=
  sumK (List.zipWith (fun p k => p.v * (reinforce p k).d) ps ks)

end Genjax.Adev
