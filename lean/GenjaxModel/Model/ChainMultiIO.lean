import GenjaxModel.Model.ChainMulti
import GenjaxModel.Model.GfiIO
/-!
  driver side of C18, `n_chains` dispatch: the recorded un-thinned flags of every lane are
  replayed as the lanes' kernels (state = step index).

  (runchain n b k c ((T F …) … c lanes of n flags))
    c = 1  -> (single (i …) (T F …) nSteps acceptCount rate)
    c ≠ 1  -> (multi ((i …) …) ((T F …) …) nSteps nChains (rate_0 … rate_{c-1}) rate)
  rates are exact rationals `p/q` (0/0 is printed as 0: the harness only compares non-empty results).
-/
namespace Genjax
open Chain

def readBoolRows : List SExp → Option (List (List Bool))
  | [] => some []
  | .list r :: rest => do
      let r ← readBools r
      let rest ← readBoolRows rest
      pure (r :: rest)
  | _ => none

def showNats (l : List Nat) : SExp := .list (l.map fun (i : Nat) => SExp.atom (toString i))

def stepChainMulti : SExp → Option SExp
  | .list [.atom "runchain", .atom n, .atom b, .atom k, .atom c, .list lanes] => do
      let n ← n.toNat?
      let b ← b.toNat?
      let k ← k.toNat?
      let c ← c.toNat?
      let lanes ← readBoolRows lanes
      if lanes.length ≠ c then none else
      let steps : Nat → Nat → Nat → Nat × Bool := fun ci j _ => (j, (lanes.getD ci []).getD j false)
      match runChain steps 0 n b k c with
      | .single r =>
          pure (.list [.atom "single", showNats r.states, .list (r.accepts.map showBool),
                       .atom (toString r.nSteps), .atom (toString r.acceptCount), .atom (showRat r.rate)])
      | .multi r =>
          pure (.list [.atom "multi", .list (r.states.map showNats),
                       .list (r.accepts.map fun row => SExp.list (row.map showBool)),
                       .atom (toString r.nSteps), .atom (toString r.nChains),
                       .list (r.chainRates.map fun (q : Rat) => SExp.atom (showRat q)), .atom (showRat r.rate)])
  | _ => none

end Genjax
