import GenjaxModel.Model.Vmap
import GenjaxModel.Model.HmmIO
namespace Genjax
open Vmap

def stepVmap : SExp → Option SExp
  | .list [.atom "vmap-layout", .list ss, .atom b, .atom n] => do
      let ss ← ss.mapM fun | .atom a => a.toNat? | _ => none
      let n ← n.toNat?
      let (shape, ax) := ruleOut ⟨true⟩ ⟨ss, b == "T"⟩ n
      pure (.list [.atom "ok", .list ((moveFront shape ax).map fun (k : Nat) => SExp.atom (toString k))])
  | _ => none

end Genjax
