import GenjaxModel.Model.State
/-
  SPECIFICATION of "what was saved" for the programs of `Model/State.lean` (property C19).

  Where the model (`SP.exec`) is a *state machine* (a store that is rewritten in place, a fresh
  interpreter with an empty namespace stack for every scan iteration, a merge step after the scan),
  the spec is a *list of save events in chronological order*: every event carries its FULL path
  (all enclosing namespaces - also those opened around enclosing scans - followed by the name) and
  the batched value. The collected dictionary is then just "later write wins" over that list.

  Mathlib-free, executable.
-/
namespace Genjax.State

/-- one save event: full path and (batched / stacked) value -/
abbrev Event := Path × SV

/-- "later write wins": replay the events in order on the empty dictionary -/
def collectEvents (evs : List Event) : Store :=
  evs.foldl (fun s e => s.set e.1 e.2) []

/-- the value stored at exactly the path `q` -/
def Store.lookup : Store → Path → Option SV
  | [], _ => none
  | e :: rest, q => if e.1 == q then some e.2 else Store.lookup rest q

/-- the events of a scan, given what each iteration collected: for every path written by the body
    (paths of iteration 0; all iterations write the same paths, see `saves_paths_indep`), ONE event
    whose value is the stack over the iterations of the value written in that iteration -/
def stackEvents (iters : List Store) : List Event :=
  match iters with
  | [] => []
  | first :: _ =>
    first.map fun e => (e.1, SV.stack (iters.map fun s => (s.lookup e.1).getD (SV.stack [])))

mutual
  /-- the save events of one equation, and the namespace stack after it.
      `outer` = namespaces enclosing the innermost enclosing scan (they can not be popped from inside
      the scan body), `ns` = namespaces opened since (inside the current body), `idx` = enclosing
      scan-iteration indices, `lanes` = enclosing vmap sizes.
      `none` = the interpreter raises (pop of a namespace not opened in this body; leaf-mode save
      outside any namespace of this body). -/
  def SP.saves : SP → (outer ns : List String) → (idx lanes : List Nat) →
      Option (List Event × List String)
    | .tag name id, outer, ns, idx, lanes =>
        some ([(outer ++ ns ++ [name], batched id idx lanes)], ns)
    | .leafTag id, outer, ns, idx, lanes =>
        if ns.isEmpty then none else some ([(outer ++ ns, batched id idx lanes)], ns)
    | .push a, _, ns, _, _ => some ([], ns ++ [a])
    | .pop, _, ns, _, _ => if ns.isEmpty then none else some ([], ns.dropLast)
    | .scan body n, outer, ns, idx, lanes => do
        -- what iteration i saved (later write wins inside the body), under the namespaces
        -- enclosing the scan; namespaces left open by the body end with the iteration
        let iters ← (List.range n).mapM fun i =>
          (body.saves (outer ++ ns) [] (idx ++ [i]) lanes).map fun r => collectEvents r.1
        pure (stackEvents iters, ns)
    | .vmap body n, outer, ns, idx, lanes => body.saves outer ns idx (lanes ++ [n])
    | .other, _, ns, _, _ => some ([], ns)
  /-- the save events of a block, in chronological order -/
  def SPL.saves : SPL → (outer ns : List String) → (idx lanes : List Nat) →
      Option (List Event × List String)
    | .nil, _, ns, _, _ => some ([], ns)
    | .cons s rest, outer, ns, idx, lanes => do
        let r1 ← s.saves outer ns idx lanes
        let r2 ← rest.saves outer r1.2 idx lanes
        pure (r1.1 ++ r2.1, r2.2)
end

/-- all save events of a whole program -/
def savesTop (p : SPL) : Option (List Event) := (p.saves [] [] [] []).map (·.1)

/-- SPEC of `state(f)(*args)[1]`: replay the save events, later write wins -/
def collectSpec (p : SPL) : Option Store := (savesTop p).map collectEvents

mutual
  /-- syntactic condition under which the code BEFORE the repair (`cfg.nsAcrossScan = false`) is
      correct: every scan is reached with an empty namespace stack (of its own interpreter) and the
      top-level names its body writes are different from every top-level name written before the
      scan (in the same interpreter). State threaded: (namespace stack, top-level names written so
      far); `none` = condition violated (or the interpreter raises). -/
  def SP.asisOK : SP → List String × List String → Option (List String × List String)
    | .tag name _, (ns, seen) => some (ns, seen ++ [(ns ++ [name]).headD name])
    | .leafTag _, (ns, seen) =>
        match ns with
        | [] => none
        | a :: _ => some (ns, seen ++ [a])
    | .push a, (ns, seen) => some (ns ++ [a], seen)
    | .pop, (ns, seen) => if ns.isEmpty then none else some (ns.dropLast, seen)
    | .scan body _, (ns, seen) =>
        if !ns.isEmpty then none else
        match body.asisOK ([], []) with
        | none => none
        | some (_, bodySeen) =>
            if bodySeen.any (fun a => seen.contains a) then none else some (ns, seen ++ bodySeen)
    | .vmap body _, s => body.asisOK s
    | .other, s => some s
  def SPL.asisOK : SPL → List String × List String → Option (List String × List String)
    | .nil, s => some s
    | .cons x rest, s =>
        match x.asisOK s with
        | none => none
        | some s' => rest.asisOK s'
end

end Genjax.State
