import GenjaxModel.Model.DistExpr
import GenjaxModel.Model.SExp
/-! driver side of C13: `(distspec)` prints the spec table of `Model/DistExpr.lean`

Answer: `(ok ENTRY …)` with `ENTRY = (name nparams kind TERM)`; `TERM` as printed by `DE.toSExp`. -/
namespace Genjax
open DistExpr

def showSpecEntry (e : String × Nat × String × DE) : SExp :=
  .list [.atom e.1, .atom (toString e.2.1), .atom e.2.2.1, e.2.2.2.toSExp]

def stepDistSpec : SExp → Option SExp
  | .list [.atom "distspec"] => some (.list (.atom "ok" :: specTable.map showSpecEntry))
  | _ => none

end Genjax
