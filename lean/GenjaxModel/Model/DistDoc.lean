import GenjaxModel.Model.DistExpr
/-
  C13: the DOCUMENTED construction of every exported genjax distribution — which TensorFlow-Probability
  distribution class it is, and which genjax argument (positional `argN`, keyword `kw:name`) feeds which TFP
  constructor parameter.  `harness/dist_translate.py` regenerates this table from the CURRENT source of
  /repo/src/genjax/distributions.py on every run of the C13 check (it finds the `name = tfp_distribution(..)`
  assignments with `ast`, evaluates the constructor on a valid parameter point and inspects the TFP object) and Lean
  re-checks `implTable = docTable` (theorem `implTable_is_documented`, in a scratch file of that run).

  Reading of an entry together with `DistExpr.specTable`: the spec term of `<name>` takes its parameters `(p 0), (p 1), …`
  in the documented genjax order = positional arguments first, then keywords; the TFP parameter names say what they mean
  (TFP's own semantics of `Gamma(concentration, rate)`, `Bernoulli(logits)` vs `Bernoulli(probs)`, … is trusted):
    beta: concentration1 ← arg0 (exponent of x), concentration0 ← arg1;  gamma: rate ← arg1 (not a scale);
    inverse_gamma / weibull / laplace / half_normal / cauchy / log_normal / student_t: scale ← last argument;
    bernoulli: logits;  flip: probs;  categorical: logits;  geometric / binomial / multinomial / negative_binomial: probs keyword;
    multivariate_normal: a covariance matrix (not a scale or a Cholesky factor).
  Mathlib-free.
-/
namespace Genjax.DistDoc

def docTable : List (String × String × List (String × String)) := [
  ("bernoulli", "Bernoulli", [("logits", "arg0")]),
  ("beta", "Beta", [("concentration0", "arg1"), ("concentration1", "arg0")]),
  ("binomial", "Binomial", [("probs", "kw:probs"), ("total_count", "arg0")]),
  ("categorical", "Categorical", [("logits", "arg0")]),
  ("cauchy", "Cauchy", [("loc", "arg0"), ("scale", "arg1")]),
  ("chi2", "Chi2", [("df", "arg0")]),
  ("dirichlet", "Dirichlet", [("concentration", "arg0")]),
  ("exponential", "Exponential", [("rate", "arg0")]),
  ("flip", "Bernoulli", [("probs", "arg0")]),
  ("gamma", "Gamma", [("concentration", "arg0"), ("rate", "arg1")]),
  ("geometric", "Geometric", [("probs", "kw:probs")]),
  ("half_normal", "HalfNormal", [("scale", "arg0")]),
  ("inverse_gamma", "InverseGamma", [("concentration", "arg0"), ("scale", "arg1")]),
  ("laplace", "Laplace", [("loc", "arg0"), ("scale", "arg1")]),
  ("log_normal", "LogNormal", [("loc", "arg0"), ("scale", "arg1")]),
  ("multinomial", "Multinomial", [("probs", "kw:probs"), ("total_count", "arg0")]),
  ("multivariate_normal", "MultivariateNormalFullCovariance", [("covariance_matrix", "arg1"), ("loc", "arg0")]),
  ("negative_binomial", "NegativeBinomial", [("probs", "kw:probs"), ("total_count", "arg0")]),
  ("normal", "Normal", [("loc", "arg0"), ("scale", "arg1")]),
  ("poisson", "Poisson", [("rate", "arg0")]),
  ("student_t", "StudentT", [("df", "arg0"), ("loc", "arg1"), ("scale", "arg2")]),
  ("uniform", "Uniform", [("high", "arg1"), ("low", "arg0")]),
  ("weibull", "Weibull", [("concentration", "arg0"), ("scale", "arg1")]),
  ("zipf", "Zipf", [("power", "arg0")])
]

/-- every documented distribution has a spec term (and vice versa): same 24 names -/
theorem docTable_names_are_spec_names :
    (docTable.map (·.1)).all (fun n => (DistExpr.specTable.map (·.1)).contains n) = true ∧
    (DistExpr.specTable.map (·.1)).all (fun n => (docTable.map (·.1)).contains n) = true := by decide

/-- the number of genjax arguments feeding TFP parameters equals the arity of the spec term (vector arguments counted once;
    the spec terms of the four vector distributions flatten them, so they are excluded here) -/
def scalarNames : List String := ["bernoulli", "beta", "binomial", "cauchy", "chi2", "exponential", "flip", "gamma", "geometric",
  "half_normal", "inverse_gamma", "laplace", "log_normal", "negative_binomial", "normal", "poisson", "student_t", "uniform", "weibull", "zipf"]

theorem docTable_arity_matches_spec :
    scalarNames.all (fun n =>
      ((docTable.find? (·.1 == n)).map (·.2.2.length)) == ((DistExpr.specTable.find? (·.1 == n)).map (·.2.1))) = true := by decide

end Genjax.DistDoc
