import GenjaxModel.Model.Sel
import GenjaxModel.Model.SExp
/-! Readers/printers for selections and choice maps (driver side of C16). -/
namespace Genjax
open SExp

def atoms : List SExp → Option (List String)
  | [] => some []
  | .atom a :: r => (atoms r).map (a :: ·)
  | _ => none

mutual
  partial def readSel : SExp → Option Sel
    | .atom "all" => some .all
    | .atom "none" => some .none
    | .list [.atom "str", .atom a] => some (.str a)
    | .list (.atom "tup" :: ps) =>
        (atoms ps).map Sel.tup
    | .list (.atom "dict" :: kvs) => (readDSel kvs).map Sel.dict
    | .list [.atom "compl", s] => (readSel s).map Sel.compl
    | .list [.atom "inter", s, t] => do pure (.inter (← readSel s) (← readSel t))
    | .list [.atom "union", s, t] => do pure (.union (← readSel s) (← readSel t))
    | _ => none
  partial def readDSel : List SExp → Option DSel
    | [] => some .nil
    | .list [.atom k, v] :: rest => do pure (.cons k (← readSel v) (← readDSel rest))
    | _ => none
end

mutual
  partial def readChm : SExp → Option Chm
    | .list [.atom "leaf", .atom v] => v.toInt?.map Chm.leaf
    | .list (.atom "node" :: kvs) => (readChmL kvs).map Chm.node
    | _ => none
  partial def readChmL : List SExp → Option ChmL
    | [] => some .nil
    | .list [.atom k, v] :: rest => do pure (.cons k (← readChm v) (← readChmL rest))
    | _ => none
end

mutual
  partial def showChm : Chm → SExp
    | .leaf v => .list [.atom "leaf", .atom (toString v)]
    | .node kids => .list (.atom "node" :: showChmL kids)
  partial def showChmL : ChmL → List SExp
    | .nil => []
    | .cons k v rest => .list [.atom k, showChm v] :: showChmL rest
end

def showBool (b : Bool) : SExp := .atom (if b then "T" else "F")

/-- flags of the `match` chain along a path, then the leaf decision -/
def Sel.flags (s : Sel) : List String → List Bool
  | [] => []
  | k :: p => (s.matchAddr k).1 :: Sel.flags (s.matchAddr k).2 p

def stepSel : SExp → Option SExp
  | .list [.atom "sel-path", s, .list ps] => do
      let s ← readSel s
      let p ← atoms ps
      pure (.list [.atom "ok", showBool (s.selected p), .list ((Sel.flags s p).map showBool)])
  | .list [.atom "filter", x, s] => do
      let s ← readSel s
      let x ← readChm x
      match x with
      | .node kids =>
        let (a1, a2) := kids.filterAsis s
        let (b1, b2) := kids.filterSpec s
        pure (.list [.atom "ok", showChm (.node a1), showChm (.node a2),
                      showChm (.node b1), showChm (.node b2),
                      showBool (kids.flagSound s && kids.noEmpty)])
      | .leaf v =>
        -- Distribution.filter: `selection.match(())`
        pure (.list [.atom "ok-leaf", showBool s.leaf, .atom (toString v)])
  | _ => none

end Genjax
