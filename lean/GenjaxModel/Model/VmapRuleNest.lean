import GenjaxModel.Model.VmapRule
/-
  The sample batching rule under a NEST of `modular_vmap`s, value level (C08).

  A nested `modular_vmap` applies `_handle_modular_vmap` innermost level first: the inner
  application sees the OUTER levels' tracers as its arrays, moves its own mapped axes to the front
  (a deterministic `moveaxis`, which the outer `jax.vmap`s batch lane-wise), and binds a NEW
  `sample_p` equation (new `sample_shape`) in the enclosing level's program; that equation reaches
  the next level's rule, and so on.  The sampler is called once, with the arguments as the
  outermost application left them; every level's declared output axis is then moved to the front by
  its `jax.vmap`, outermost axis first in the final array.

  `jax.vmap` of a deterministic operation is modelled semantically (`liftOuter`: apply the
  operation to every lane's slice and stack the lanes along a new leading axis — JAX's batching
  rules for `transpose` are trusted, not modelled).  Mathlib-free, executable (driver command
  `vmap-nest`).
-/
namespace Genjax.VmapRule

/-- an argument under a nest of maps: `bdims` lists the mapped axis per level, INNERMOST level
    first; the axis of a level is relative to the array with all OUTER levels sliced away -/
structure NArg (α : Type) where
  arr : Arr α
  bdims : List (Option Nat)

structure NSite (ν α : Type) where
  sig : List ν
  sampleShape : List Nat
  pos : List (NArg α)
  kws : List (ν × NArg α)

/-- the lanes stacked along a new leading axis -/
def Arr.stack {α : Type} (n : Nat) (f : Nat → Arr α) : Arr α :=
  ⟨n :: (f 0).shape, fun ix => match ix with
    | i :: r => (f i).get r
    | [] => (f 0).get []⟩

section Nest
variable {ν α β κ : Type} [DecidableEq ν]

/-- `jax.vmap`s (levels outermost first: mapped axis, size) of a deterministic array function:
    the function applied to every lane's slice, lanes stacked in front; returns the new array and
    the new mapped axes of those levels -/
def liftOuter (f : Arr α → Arr α) : List (Option Nat × Nat) → Arr α → Arr α × List (Option Nat)
  | [], a => (f a, [])
  | (none, _) :: rest, a => ((liftOuter f rest a).1, none :: (liftOuter f rest a).2)
  | (some d, n) :: rest, a =>
      (Arr.stack n fun i => (liftOuter f rest (a.take d i)).1, some 0 :: (liftOuter f rest (a.take d 0)).2)

def NSite.flat (s : NSite ν α) : List (NArg α) := s.pos ++ s.kws.map (·.2)

/-- is the argument mapped at the innermost level? -/
def NArg.inner (a : NArg α) : Option Nat := a.bdims.headD none

/-- the innermost application moves its mapped axis of one argument to the front, under the outer
    levels (`outerSizes` innermost first, like `bdims.tail`) -/
def moveInner (cfg : Cfg) (outerSizes : List Nat) (a : NArg α) : NArg α :=
  match a.bdims with
  | some d :: outer =>
      if cfg.moveMappedAxes then
        let r := liftOuter (fun x => x.moveFront d) (outer.reverse.zip outerSizes.reverse) a.arr
        ⟨r.1, r.2.reverse⟩
      else ⟨a.arr, outer⟩
  | _ :: outer => ⟨a.arr, outer⟩
  | [] => a

/-- one application of `_handle_modular_vmap` (the innermost remaining level, axis size n): the
    re-bound site of the enclosing level and the declared output axis.  `static_dim_length` is
    read as "some argument is mapped at this level" (its value is the axis size for every
    argument list `jax.vmap` accepts). -/
def rebindInner (cfg : Cfg) (s : NSite ν α) (n : Nat) (outerSizes : List Nat) : NSite ν α × Option Nat :=
  let mapped := s.flat.any fun a => a.inner.isSome
  let ss := if mapped then s.sampleShape else if n ≠ 0 then n :: s.sampleShape else s.sampleShape
  let pos := s.pos.map (moveInner cfg outerSizes)
  let kws := s.kws.map fun kw => (kw.1, moveInner cfg outerSizes kw.2)
  let ax : Option Nat :=
    if mapped then (if cfg.axisAfterSampleShape then some s.sampleShape.length else if n ≠ 0 then some 0 else none)
    else if n ≠ 0 then some 0 else none
  (if cfg.kwargsAsKeywords then ⟨s.sig, ss, pos, kws⟩ else ⟨s.sig, ss, pos ++ kws.map (·.2), []⟩, ax)

/-- all levels (`sizes` innermost first): the site as the outermost application re-binds it, and
    the declared axes, innermost level first -/
def rebindNest (cfg : Cfg) : List Nat → NSite ν α → NSite ν α × List (Option Nat)
  | [], s => (s, [])
  | n :: outer, s =>
      let rb := rebindInner cfg s n outer
      let r := rebindNest cfg outer rb.1
      (r.1, rb.2 :: r.2)

/-- … then the ONE sampler call; returns its array and the declared axes, innermost level first -/
def nestCall (cfg : Cfg) (site : κ → List Nat → List (Option α) → β) (key : κ) (sizes : List Nat)
    (s : NSite ν α) : Option (Arr β × List (Option Nat)) :=
  let r := rebindNest cfg sizes s
  (draw site r.1.sig key (r.1.pos.map (·.arr)) (r.1.kws.map fun kw => (kw.1, kw.2.arr)) r.1.sampleShape).map (·, r.2)

/-- are the declared axes in range? (levels outermost first, rank of the array) -/
def unwindOk : List (Option Nat) → Nat → Bool
  | [], _ => true
  | some ax :: inner, rank => decide (ax < rank) && unwindOk inner (rank - 1)
  | none :: inner, rank => unwindOk inner rank

/-- every level's `jax.vmap` moves its declared axis to the front (levels outermost first: declared
    axis, axis size); the outermost lane axis ends up first -/
def unwind : List (Option Nat × Nat) → Arr β → Arr β
  | [], r => r
  | (some ax, _) :: inner, r =>
      Arr.stack (r.shape.getD ax 0) fun i => unwind inner (r.take ax i)
  | (none, n) :: inner, r => Arr.stack n fun _ => unwind inner r

/-- the site as it stands in the program of the OUTERMOST map (all inner levels applied) -/
def beforeOutermost (cfg : Cfg) : List Nat → NSite ν α → NSite ν α
  | [], s => s
  | [_], s => s
  | n :: outer, s => beforeOutermost cfg outer (rebindInner cfg s n outer).1

/-- per-lane shape of an argument with (at most) one level left -/
def NArg.laneShape1 (a : NArg α) : List Nat :=
  match a.bdims with
  | some d :: _ => a.arr.shape.eraseIdx d
  | _ => a.arr.shape

/-- abstract evaluation of the site's equation in the program of the outermost map (staged with
    per-lane shapes): `sample_shape ++ broadcast(per-lane shapes)`; `none` = staging raises -/
def NSite.abstractShape (s : NSite ν α) : Option (List Nat) :=
  (bindArgs s.sig (s.pos.map (·.laneShape1)) (s.kws.map fun kw => (kw.1, kw.2.laneShape1))).bind fun ps =>
    (bshape (ps.filterMap id)).map (s.sampleShape ++ ·)

/-- does the staged program of the outermost map contain a `transpose` of the site's result?  Every
    inner level's `jax.vmap` moves its declared axis to the front, a no-op when that axis is 0
    (`declared` innermost first, the outermost level last) -/
def stagedTranspose (declared : List (Option Nat)) : Bool :=
  declared.dropLast.any fun ax => ax.isSome && ax != some 0

inductive NestErr where
  | bind | broadcast | rank | axis
  deriving DecidableEq, Repr

/-- a vectorised sampling site under a nest of `modular_vmap`s (`sizes` innermost first): final
    array, outermost lane axis first.  Errors: the one call does not bind / broadcast (also at
    staging: the per-lane shapes of the outermost program); `rank`: the staged program of the
    outermost map transposes the result assuming the per-lane rank of the abstract evaluation,
    the array the rule really returns has another per-lane rank (only outside the lane-wise
    region: the open finding `vmap-differing-rank`). -/
def vmapNestE (cfg : Cfg) (site : κ → List Nat → List (Option α) → β) (key : κ) (sizes : List Nat)
    (s : NSite ν α) : Except NestErr (Arr β) :=
  let final := (rebindNest cfg sizes s).1
  if (bindArgs final.sig (final.pos.map (·.arr)) (final.kws.map fun kw => (kw.1, kw.2.arr))).isNone then .error .bind else
  match (beforeOutermost cfg sizes s).abstractShape, nestCall cfg site key sizes s with
  | none, _ => .error .broadcast
  | _, none => .error .broadcast
  | some abs, some r =>
    let lanes := if (r.2.getLast?.getD none).isSome then 1 else 0
    if stagedTranspose r.2 && abs.length + lanes != r.1.shape.length then .error .rank
    else
      -- without a staged transpose the inner levels' moves are no-ops: only the outermost `jax.vmap` acts
      let decl := if stagedTranspose r.2 then r.2 else r.2.getLast?.toList
      let szs := if stagedTranspose r.2 then sizes else sizes.getLast?.toList
      if unwindOk decl.reverse r.1.shape.length then .ok (unwind (decl.reverse.zip szs.reverse) r.1)
      else .error .axis

/-- the error of an outcome, if any -/
def errOf {γ : Type} : Except NestErr γ → Option NestErr
  | .ok _ => none
  | .error e => some e

def vmapNest (cfg : Cfg) (site : κ → List Nat → List (Option α) → β) (key : κ) (sizes : List Nat)
    (s : NSite ν α) : Option (Arr β) :=
  match vmapNestE cfg site key sizes s with
  | .ok r => some r
  | .error _ => none

/-- the fully sliced arguments of one lane (`lanes` innermost first, like `bdims`) -/
def sliceAll (a : NArg α) (lanes : List Nat) : Arr α :=
  ((a.bdims.zip lanes).reverse).foldl (fun x dl => match dl.1 with
    | some d => x.take d dl.2
    | none => x) a.arr

/-- the un-mapped site on one lane's fully sliced arguments -/
def nestLaneDraw (site : κ → List Nat → List (Option α) → β) (key : κ) (s : NSite ν α) (lanes : List Nat) :
    Option (Arr β) :=
  draw site s.sig key (s.pos.map (sliceAll · lanes)) (s.kws.map fun kw => (kw.1, sliceAll kw.2 lanes)) s.sampleShape

end Nest
end Genjax.VmapRule
