import GenjaxModel.Model.Adev
/-
  Deterministic straight-line programs: the ADEV interpreter (continuation-passing: evaluate
  equation i on duals, then continue with the rest) versus ordinary forward-mode AD
  (src/genjax/adev/__init__.py:489-648, the default branch; cond with both branches transformed).
-/
namespace Genjax.Adev

variable {K : Type} [Zero K] [One K] [Add K] [Sub K] [Mul K] [Div K] [Neg K] [LT K] [DecidableLT K]

/-- primitive equations; operands are indices into the environment (values computed so far) -/
inductive Eqn (K : Type) where
  | const (c : K)
  | add (i j : Nat)
  | sub (i j : Nat)
  | mul (i j : Nat)
  | neg (i : Nat)
  | cond (c i j : Nat)      -- select env[i] if env[c].v > 0 else env[j] (lax.cond on a predicate)

def Eqn.eval (e : Eqn K) (env : List (Dual K)) : Dual K :=
  let g := fun i => env.getD i ⟨0, 0⟩
  match e with
  | .const c => Dual.const c
  | .add i j => Dual.add (g i) (g j)
  | .sub i j => Dual.sub (g i) (g j)
  | .mul i j => Dual.mul (g i) (g j)
  | .neg i => Dual.neg (g i)
  | .cond c i j => if 0 < (g c).v then g i else g j

/-- forward-mode AD: evaluate the equations in order, return the last value -/
def jvpEval : List (Eqn K) → List (Dual K) → Dual K
  | [], env => env.getLastD ⟨0, 0⟩
  | e :: es, env => jvpEval es (env ++ [e.eval env])

/-- the ADEV interpreter in continuation-passing style: evaluate one equation, pass its Dual to
    the continuation that runs the remaining equations; the final continuation is `kont` -/
def adevEval (kont : Dual K → Dual K) : List (Eqn K) → List (Dual K) → Dual K
  | [], env => kont (env.getLastD ⟨0, 0⟩)
  | e :: es, env => (fun d => adevEval kont es (env ++ [d])) (e.eval env)

end Genjax.Adev
