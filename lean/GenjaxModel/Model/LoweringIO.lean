import GenjaxModel.Model.Lowering
import GenjaxModel.Model.SelIO
namespace Genjax
open Lowering

def readC : SExp → Option C
  | .atom "jit" => some .jit | .atom "scan" => some .scan | .atom "while" => some .whileL
  | .atom "fori" => some .fori | .atom "fori_dyn" => some .foriDyn | .atom "cond" => some .cond
  | .atom "switch" => some .switch | .atom "grad" => some .grad | .atom "vmap_b" => some .vmapB
  | .atom "vmap_u" => some .vmapU | .atom "mvmap" => some .mvmap
  | .atom "checkpoint" => some .opaque | .atom "custom_jvp" => some .customD | .atom "custom_vjp" => some .customD
  | _ => none

def showOut : Out → String
  | .fresh => "fresh" | .loweringError => "lowering-error" | .batchError => "batch-error"
  | .baked => "baked" | .replicated => "replicated" | .keyFunction => "key-function" | .keyIgnored => "key-ignored"

def stepLowering : SExp → Option SExp
  | .list [.atom "lowering", .atom cfg, .list pl] => do
      let pl ← pl.mapM readC
      let cfg : Cfg := match cfg.toList with
        | [a, b] => ⟨a == 'T', b == 'T'⟩
        | _ => Cfg.asis
      pure (.list [.atom "ok", .atom (showOut (outcome cfg pl)), .atom (showOut (seeded cfg pl))])
  | _ => none

end Genjax
