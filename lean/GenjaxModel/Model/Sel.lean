/-
  Model of genjax selections (src/genjax/core.py:781-1018) and of
  Fn.filter / Fn.merge on choice maps (core.py:2221-2311).
  Mathlib-free, executable.
-/
namespace Genjax

mutual
  /-- Selection expressions; mirrors AllSel/NoneSel/StrSel/TupleSel/DictSel/ComplSel/InSel/OrSel. -/
  inductive Sel where
    | all | none
    | str (a : String)
    | tup (p : List String)
    | dict (d : DSel)
    | compl (s : Sel)
    | inter (s t : Sel)
    | union (s t : Sel)
  inductive DSel where
    | nil
    | cons (k : String) (v : Sel) (rest : DSel)
end

mutual
  /-- `Selection.match(addr)` for a string address: (hit, remainder). -/
  def Sel.matchAddr : Sel → String → Bool × Sel
    | .all, _ => (true, .all)
    | .none, _ => (false, .none)
    | .str a, k => if k = a then (true, .all) else (false, .none)
    | .tup [], _ => (false, .none)
    | .tup [x], k => if k = x then (true, .all) else (false, .none)
    | .tup (x :: y :: r), k => if k = x then (true, .tup (y :: r)) else (false, .none)
    | .dict d, k => d.lookup k
    | .compl s, k => let (c, r) := s.matchAddr k; (!c, .compl r)
    | .inter s t, k =>
        let (c1, r1) := s.matchAddr k; let (c2, r2) := t.matchAddr k; (c1 && c2, .inter r1 r2)
    | .union s t, k =>
        let (c1, r1) := s.matchAddr k; let (c2, r2) := t.matchAddr k; (c1 || c2, .union r1 r2)
  /-- `addr in self.d`, `self.d[addr]` (first binding wins; Python dict keys are unique). -/
  def DSel.lookup : DSel → String → Bool × Sel
    | .nil, _ => (false, .none)
    | .cons k v rest, a => if a = k then (true, v) else rest.lookup a
end

/-- `() in s`: the leaf decision of `Distribution.regenerate` / `Distribution.filter`. -/
def Sel.leaf : Sel → Bool
  | .all => true
  | .none => false
  | .str _ => false
  | .tup _ => false
  | .dict _ => false
  | .compl s => !s.leaf
  | .inter s t => s.leaf && t.leaf
  | .union s t => s.leaf || t.leaf

/-- remainder of a selection along an address path -/
def Sel.rem (s : Sel) : List String → Sel
  | [] => s
  | k :: p => (s.matchAddr k).2.rem p

/-- The property's notion: address path `p` is selected by `s`
    (what `regenerate` resamples: thread the remainder down, decide at the leaf). -/
def Sel.selected (s : Sel) (p : List String) : Bool := (s.rem p).leaf

mutual
  /-- choice maps: nested dicts with scalar leaves (leaf payload is opaque to filter/merge) -/
  inductive Chm where
    | leaf (v : Int)
    | node (kids : ChmL)
  inductive ChmL where
    | nil
    | cons (k : String) (v : Chm) (rest : ChmL)
end

/-- `if sub is not None: out[k] = sub` -/
def ChmL.optCons (k : String) (ks rs : ChmL) : ChmL :=
  match ks with
  | .nil => rs
  | _ => .cons k (.node ks) rs

mutual
  /-- `Fn.filter` as written (core.py:2265-2311): decisions use the *hit flag*.
      Returns (selected, unselected) association lists; empty = Python `None`. -/
  def ChmL.filterAsis : ChmL → Sel → ChmL × ChmL
    | .nil, _ => (.nil, .nil)
    | .cons k v rest, s =>
      let (c, r) := s.matchAddr k
      let (rs, ru) := rest.filterAsis s
      if c then
        match v with
        | .leaf x => (.cons k (.leaf x) rs, ru)
        | .node kids =>
          let (ks, ku) := kids.filterAsis r
          (ChmL.optCons k ks rs, ChmL.optCons k ku ru)
      else (rs, .cons k v ru)
end

mutual
  /-- specification filter: decide at the leaves with the threaded remainder. -/
  def ChmL.filterSpec : ChmL → Sel → ChmL × ChmL
    | .nil, _ => (.nil, .nil)
    | .cons k v rest, s =>
      let r := (s.matchAddr k).2
      let (rs, ru) := rest.filterSpec s
      match v with
      | .leaf x => if r.leaf then (.cons k (.leaf x) rs, ru) else (rs, .cons k (.leaf x) ru)
      | .node kids =>
        let (ks, ku) := kids.filterSpec r
        (ChmL.optCons k ks rs, ChmL.optCons k ku ru)
end

mutual
  /-- all (path, value) leaves of a choice map, in order -/
  def Chm.leaves : Chm → List (List String × Int)
    | .leaf v => [([], v)]
    | .node kids => kids.leaves
  def ChmL.leaves : ChmL → List (List String × Int)
    | .nil => []
    | .cons k v rest => (v.leaves.map fun (p, x) => (k :: p, x)) ++ rest.leaves
end

end Genjax

namespace Genjax

mutual
  /-- decidable side condition under which the hit flag used by `Fn.filter` is sound for
      the choice map at hand: a miss means nothing below is selected, and a hit at a leaf
      means the leaf itself is selected. -/
  def ChmL.flagSound : ChmL → Sel → Bool
    | .nil, _ => true
    | .cons k v rest, s =>
      let (c, r) := s.matchAddr k
      rest.flagSound s &&
      (match v with
       | .leaf _ => c == r.leaf
       | .node kids =>
         if c then kids.flagSound r
         else kids.leaves.all (fun e => !r.selected e.1))
end

mutual
  def Sel.complFree : Sel → Bool
    | .all | .none | .str _ | .tup _ => true
    | .dict d => d.complFree
    | .compl _ => false
    | .inter s t => s.complFree && t.complFree
    | .union s t => s.complFree && t.complFree
  def DSel.complFree : DSel → Bool
    | .nil => true
    | .cons _ v rest => v.complFree && rest.complFree
end

end Genjax

namespace Genjax
mutual
  /-- no empty sub-dictionaries (real choice maps never contain `{}` as a value) -/
  def Chm.noEmpty : Chm → Bool
    | .leaf _ => true
    | .node .nil => false
    | .node (.cons k v rest) => (ChmL.cons k v rest).noEmpty
  def ChmL.noEmpty : ChmL → Bool
    | .nil => true
    | .cons _ v rest => v.noEmpty && rest.noEmpty
end
end Genjax
