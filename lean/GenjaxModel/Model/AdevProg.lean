import GenjaxModel.Model.Adev
import GenjaxModel.Model.Smc
/-
  A small deep embedding of DISCRETE ADEV programs (src/genjax/adev/__init__.py): any number of
  sampling sites, each with its own gradient-estimation strategy, where everything that follows a
  site (parameters of later sites, which sites follow, the returned value) may depend on the
  outcomes of all earlier sites and - through dual numbers - on the differentiated parameter θ.

  The interpreter (`ADEV.eval_jaxpr_adev`, 460-648) is written in continuation-passing style: at a
  site it builds `kdual` (= the ADEV transform of the rest of the program, returning the Dual
  (value, tangent) ESTIMATE of the rest) and `kpure` (= an ordinary forward-sampling run of the rest,
  returning a value) and hands both to the primitive's `prim_jvp_estimate`.  A program is therefore
  a tree: `k b` is the rest of the program after outcome `b` (this covers straight-line programs -
  see `SProg` below - as well as `cond` on earlier outcomes, 574-602).

  Three semantics, all by structural recursion:
    `exact`  the true expectation and its true derivative (nested enumeration in dual arithmetic);
    `run`    `kpure`: the distribution of the value of one forward-sampling run;
    `est`    `kdual`: the distribution of the Dual the interpreter returns, every call of a
             continuation drawing fresh, independent randomness (as the code does: `kdual` is
             called once per enumerated outcome by the enumeration primitives (1271-1276, 1409-1411,
             1451-1453), once by REINFORCE (1108), and FlipMVD calls `kdual` on the drawn outcome and
             `kpure` on the complementary one (1365-1369)).
  Randomness is finite-support (`FinDist`, `E` of Model/Smc.lean), so expectations are exact sums.
  Generic over the number type (runs on `Rat`, reasoned about over a field).
-/
namespace Genjax.Adev
open Genjax.Smc (FinDist)
open Genjax.Smc.FinDist (pure bind sequence)

variable {K : Type} [Zero K] [One K] [Add K] [Sub K] [Mul K] [Div K] [Neg K]

/-- the estimator a Bernoulli site uses: flip_enum, flip_enum_parallel, flip_reinforce, flip_mvd -/
inductive FlipEst where
  | enum | enumPar | reinforce | mvd
  deriving Repr, DecidableEq

/-- the estimator a finite categorical site uses: categorical_enum_parallel, or a score-function
    (REINFORCE) estimator (categorical; geometric_reinforce truncated to a finite support) -/
inductive CatEst where
  | enumPar | reinforce
  deriving Repr, DecidableEq

/-- discrete ADEV programs.  `flip e p k`: a Bernoulli site with probability `p` (a dual: value
    and tangent w.r.t. θ), estimator `e`, and rest-of-program `k b` for outcome `b`.
    `cat e ps k`: a categorical site with outcome probabilities `ps` (duals; for
    categorical_enum_parallel these are the duals of softmax(logits)), rest `k i` for outcome
    `i < ps.length`.  `ret r`: return the (deterministically computed) dual `r`. -/
inductive Prog (K : Type) where
  | ret (r : Dual K)
  | flip (e : FlipEst) (p : Dual K) (k : Bool → Prog K)
  | cat (e : CatEst) (ps : List (Dual K)) (k : Nat → Prog K)

/-- Bernoulli(q) as a finite distribution -/
def flipDist (q : K) : FinDist K Bool := [(true, q), (false, 1 - q)]

/-- the categorical distribution on {0..n-1} with the value parts of `ps` as probabilities -/
def catDist (ps : List (Dual K)) : FinDist K Nat :=
  (List.range ps.length).map fun i => (i, (ps.getD i ⟨0, 0⟩).v)

namespace Prog

/-- the true expectation of the program and its true derivative: nested enumeration
    Σ_outcome P(outcome) · (rest) in dual arithmetic (product and sum rules) -/
def exact : Prog K → Dual K
  | .ret r => r
  | .flip _ p k => flipEnum p (exact (k true)) (exact (k false))
  | .cat _ ps k => enumAll ps ((List.range ps.length).map fun i => exact (k i))

/-- `kpure`: one forward-sampling run of the program, returning its value -/
def run : Prog K → FinDist K K
  | .ret r => pure r.v
  | .flip _ p k => bind (flipDist p.v) fun b => run (k b)
  | .cat _ ps k => bind (catDist ps) fun i => run (k i)

/-- `kdual`: the Dual the ADEV interpreter computes, as a finite distribution -/
def est : Prog K → FinDist K (Dual K)
  | .ret r => pure r
  -- flip_enum: p·k(T) + (1−p)·k(F) on the two continuation ESTIMATES (1271-1288)
  | .flip .enum p k =>
      bind (est (k true)) fun kT => bind (est (k false)) fun kF => pure (flipEnum p kT kF)
  -- flip_enum_parallel: Σ [p, 1−p] · kdual(support) with support = [True, False] (1405-1420)
  | .flip .enumPar p k =>
      bind (sequence [est (k true), est (k false)]) fun ks =>
        pure (enumAll [p, Dual.sub (Dual.const 1) p] ks)
  -- flip_reinforce: draw b, one continuation estimate, add value · d log p_b (1101-1126)
  | .flip .reinforce p k =>
      bind (flipDist p.v) fun b => bind (est (k b)) fun kb => pure (reinforce (flipProb p b) kb)
  -- flip_mvd: draw b, kdual(b), and an independent kpure(¬b) whose VALUE is `other` (1362-1378)
  | .flip .mvd p k =>
      bind (flipDist p.v) fun b => bind (est (k b)) fun kb => bind (run (k (!b))) fun o =>
        pure (if b then mvd true p kb ⟨o, 0⟩ else mvd false p ⟨o, 0⟩ kb)
  -- categorical_enum_parallel: Σ_i p_i · kdual(i) over all indices (1448-1463)
  | .cat .enumPar ps k =>
      bind (sequence ((List.range ps.length).map fun i => est (k i))) fun ks =>
        pure (enumAll ps ks)
  -- REINFORCE on a finite support: draw i, one continuation estimate (1101-1126)
  | .cat .reinforce ps k =>
      bind (catDist ps) fun i => bind (est (k i)) fun ki =>
        pure (reinforce (ps.getD i ⟨0, 0⟩) ki)

/-- number of sampling sites on the longest path -/
def depth : Prog K → Nat
  | .ret _ => 0
  | .flip _ _ k => max (depth (k true)) (depth (k false)) + 1
  | .cat _ ps k => ((List.range ps.length).map fun i => depth (k i)).foldl max 0 + 1

end Prog

/-- outcomes recorded by a straight-line program: Bernoulli outcomes as 1/0, categorical as index -/
abbrev Outcome := Nat

/-- straight-line programs, the shape of a Jaxpr without `cond`: a fixed sequence of sites; the
    parameter of each site and the returned dual are functions of the list of earlier outcomes
    (in program order) -/
inductive SProg (K : Type) where
  | ret (f : List Outcome → Dual K)
  | flip (e : FlipEst) (p : List Outcome → Dual K) (rest : SProg K)
  | cat (e : CatEst) (ps : List Outcome → List (Dual K)) (rest : SProg K)

/-- unfold a straight-line program, given the outcomes drawn so far, into its outcome tree -/
def SProg.toProg : SProg K → List Outcome → Prog K
  | .ret f, outs => .ret (f outs)
  | .flip e p rest, outs => .flip e (p outs) fun b => toProg rest (outs ++ [b.toNat])
  | .cat e ps rest, outs => .cat e (ps outs) fun i => toProg rest (outs ++ [i])

/-- number of sites of a straight-line program -/
def SProg.sites : SProg K → Nat
  | .ret _ => 0
  | .flip _ _ rest => rest.sites + 1
  | .cat _ _ rest => rest.sites + 1

/-! ### probability duals of two concrete finite distributions -/

/-- powers in dual arithmetic -/
def Dual.pow (a : Dual K) : Nat → Dual K
  | 0 => Dual.const 1
  | n + 1 => Dual.mul (Dual.pow a n) a

/-- geometric(p) (number of failures before the first success, the TFP convention used by
    `geometric_reinforce`, 1503-1510) truncated to the support {0..n-1}: P(i) = (1−p)^i · p
    evaluated in dual arithmetic, so that `P(i).d / P(i).v` is the score d/dθ log P(i) that
    REINFORCE multiplies the continuation value with -/
def geomProbs (p : Dual K) (n : Nat) : List (Dual K) :=
  (List.range n).map fun i => Dual.mul (Dual.pow (Dual.sub (Dual.const 1) p) i) p

/-- the duals of softmax(logits) as computed by `jax.jvp` of `jax.nn.softmax` inside
    categorical_enum_parallel (1455-1463): s_i = e_i / Σ e, s_i' = s_i · (l_i' − Σ_j s_j l_j'),
    where e_i = `ex l_i.v` and `ex` stands for the exponential (the number type is an abstract
    field, so the exponential is a parameter) -/
def softmaxD (ex : K → K) (ls : List (Dual K)) : List (Dual K) :=
  let S := sumK (ls.map fun l => ex l.v)
  let m := sumK (ls.map fun l => ex l.v / S * l.d)
  ls.map fun l => ⟨ex l.v / S, ex l.v / S * (l.d - m)⟩

end Genjax.Adev
