/-
  Model of the numeric cores of the MCMC kernels (src/genjax/inference/mcmc.py):
  the Metropolis-Hastings accept rule (267-309), the MALA proposal and its log acceptance ratio
  (312-431), HMC's leapfrog integrator and energy difference (434-578).
  Generic over the number type; runs on `Rat`/`Float`, reasoned about over an ordered field.
  State vectors are lists (one entry per coordinate of the selected choices).
-/
namespace Genjax.Mcmc

variable {K : Type} [Zero K] [One K] [Add K] [Sub K] [Mul K] [Div K] [Neg K] [LT K] [DecidableLT K]
  [OfNat K 2]

/-- accept iff log u < min(0, log weight) -/
def accept (logU logW : K) : Bool := logU < (if logW < 0 then logW else 0)

/-- result of a kernel step: the proposed state if accepted, else the input state unchanged -/
def select {σ : Type} (acc : Bool) (proposed current : σ) : σ := if acc then proposed else current

def vadd (a b : List K) : List K := List.zipWith (· + ·) a b
def smul (c : K) (a : List K) : List K := a.map (c * ·)
def vneg (a : List K) : List K := a.map (- ·)

/-- MALA proposal: x' = x + (ε²/2)·∇log p(x) + ε·noise, per coordinate -/
def malaPropose (eps : K) (x grad noise : List K) : List K :=
  vadd (vadd x (smul (eps * eps / 2) grad)) (smul eps noise)

/-- one leapfrog step with force field `g` (= ∇ log p): half kick, drift, half kick -/
def leapfrog (g : List K → List K) (eps : K) (xp : List K × List K) : List K × List K :=
  let p1 := vadd xp.2 (smul (eps / 2) (g xp.1))
  let x1 := vadd xp.1 (smul eps p1)
  let p2 := vadd p1 (smul (eps / 2) (g x1))
  (x1, p2)

def leapfrogN (g : List K → List K) (eps : K) : Nat → List K × List K → List K × List K
  | 0, xp => xp
  | n + 1, xp => leapfrogN g eps n (leapfrog g eps xp)

/-- momentum flip -/
def flip (xp : List K × List K) : List K × List K := (xp.1, vneg xp.2)

end Genjax.Mcmc
