import GenjaxModel.Model.Hmm
import GenjaxModel.Model.Kalman
import GenjaxModel.Model.ResampleIO
/-! driver side of C20 (HMM part): exact rational forward filter / brute force / FFBS law -/
namespace Genjax
open Hmm

def readMat (l : List SExp) : Option (List (List Rat)) :=
  l.mapM fun | .list r => readRats r | _ => none

def showRats (l : List Rat) : SExp := .list (l.map fun (q : Rat) => SExp.atom (showRat q))

def stepHmm : SExp → Option SExp
  | .list [.atom "hmm", .list init, .list trans, .list emis, .list obs, .list states] => do
      let init ← readRats init
      let trans ← readMat trans
      let emis ← readMat emis
      let obs ← obs.mapM fun | .atom a => a.toNat? | _ => none
      let ss ← states.mapM fun | .atom a => a.toNat? | _ => none
      let fw := forward init trans emis obs
      let filt := fw.map fun a => a.map (· / Hmm.sum a)
      pure (.list [.atom "ok", .atom (showRat (marginal init trans emis obs)),
                   .atom (showRat (brute init trans emis obs)),
                   .list (filt.map showRats),
                   .atom (showRat (joint init trans emis ss obs)),
                   .atom (showRat (ffbsProb trans fw ss))])
  | _ => none

/-- scalar Kalman filter over exact rationals: filtered (mean, variance) per step -/
def kalman1 (a q c r : Rat) : Kalman.Gauss Rat → List Rat → List (Rat × Rat)
  | _, [] => []
  | s, y :: ys =>
    let f := Kalman.update c r y s
    (f.m, f.P) :: kalman1 a q c r (Kalman.predict a q f) ys

def stepKalman : SExp → Option SExp
  | .list [.atom "kalman1", .atom m, .atom p, .atom a, .atom q, .atom c, .atom r, .list ys] => do
      let ys ← readRats ys
      let out := kalman1 (← readRat a) (← readRat q) (← readRat c) (← readRat r) ⟨← readRat m, ← readRat p⟩ ys
      pure (.list [.atom "ok", .list (out.map fun e => SExp.list [.atom (showRat e.1), .atom (showRat e.2)])])
  | _ => none

end Genjax
