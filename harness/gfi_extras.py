"""Extra C01-C05 checks that need real randomness or real distributions (not the probe programs)."""
import itertools
import math

import numpy as np

import impl


def chi2_threshold(df, alpha=1e-6):
    from scipy.stats import chi2
    return float(chi2.isf(alpha, df))


def law_programs(G):
    """small discrete programs: (name, gf, args, outcome decoder: choices->tuple, all outcomes, outcome->choices)"""
    import jax.numpy as jnp
    flip = G.flip

    @G.gen
    def step(prev, x):
        z = flip(jnp.where(prev, 0.3, 0.65)) @ "z"
        return z, z

    scan3 = G.Scan(step, length=G.const(3))

    @G.gen
    def chain3():
        c, zs = scan3(jnp.array(False), jnp.zeros(3)) @ "s"
        return zs

    @G.gen
    def lanes3():
        v = flip.vmap(in_axes=(0,))(jnp.array([0.2, 0.5, 0.75])) @ "v"
        return v

    @G.gen
    def mix():
        z = flip(0.4) @ "z"
        y = flip.cond(flip)(z, jnp.where(z, 0.9, 0.15)) @ "y"
        w = flip(jnp.where(y, 0.7, 0.25)) @ "w"
        return w

    @G.gen
    def inner(p):
        a = flip(p) @ "a"
        b = flip(jnp.where(a, 0.8, 0.3)) @ "b"
        return b

    @G.gen
    def nested():
        u = inner(0.35) @ "u"
        r = inner.repeat(2)(jnp.where(u, 0.6, 0.1)) @ "r"
        return r

    @G.gen
    def scan_then_sites():
        # a Scan followed by two more sites and a second Scan: the JOINT law needs every site to have its own randomness
        c, zs = scan3(jnp.array(False), jnp.zeros(3)) @ "s"
        a = flip(0.5) @ "a"
        b = flip(0.5) @ "b"
        c2, ys = G.Scan(step, length=G.const(2))(jnp.array(True), jnp.zeros(2)) @ "t"
        return a

    B = (False, True)
    progs = []
    progs.append(("scan-then-sites-then-scan", scan_then_sites, (), None,
                  [dict(s=dict(z=np.array(o[:3])), a=np.array(o[3]), b=np.array(o[4]), t=dict(z=np.array(o[5:7]))) for o in itertools.product(B, repeat=7)],
                  lambda c: np.concatenate([np.asarray(c["s"]["z"]), np.asarray(c["a"])[..., None], np.asarray(c["b"])[..., None], np.asarray(c["t"]["z"])], axis=-1)))
    progs.append(("scan-markov-chain", chain3, (), lambda c: tuple(np.asarray(c["s"]["z"]).T.tolist()) if False else None,
                  [dict(s=dict(z=np.array(o))) for o in itertools.product(B, repeat=3)], lambda c: c["s"]["z"]))
    progs.append(("vmap-lanes", lanes3, (), None,
                  [dict(v=np.array(o)) for o in itertools.product(B, repeat=3)], lambda c: c["v"]))
    progs.append(("cond-mixture", mix, (), None,
                  [dict(z=np.array(o[0]), y=np.array(o[1]), w=np.array(o[2])) for o in itertools.product(B, repeat=3)],
                  lambda c: np.stack([np.asarray(c["z"]), np.asarray(c["y"]), np.asarray(c["w"])], axis=-1)))
    progs.append(("nested-fn-repeat", nested, (), None,
                  [dict(u=dict(a=np.array(o[0]), b=np.array(o[1])), r=dict(a=np.array(o[2:4]), b=np.array(o[4:6]))) for o in itertools.product(B, repeat=6)],
                  lambda c: np.concatenate([np.asarray(c["u"]["a"])[..., None], np.asarray(c["u"]["b"])[..., None], np.asarray(c["r"]["a"]), np.asarray(c["r"]["b"])], axis=-1)))
    return progs


def c01_law(ctx, n_keys):
    """simulate's choices are distributed according to exp(assess), outcome by outcome (chi-square, alpha=1e-6)"""
    import jax
    import jax.numpy as jnp
    import jax.random as jr
    G = impl.load()
    for name, gf, args, _, outcomes, enc in law_programs(G):
        case = {"kind": "simulate-law", "program": name, "keys": n_keys, "seed": ctx.seed}
        try:
            keys = jr.split(jr.key(ctx.seed + 17), n_keys)
            trs = jax.jit(jax.vmap(lambda k: G.seed(gf.simulate)(k, *args)))(keys)
            ch = trs.get_choices()
            codes = np.asarray(enc(ch)).reshape(n_keys, -1).astype(int)
            probs = []
            for o in outcomes:
                oj = jax.tree_util.tree_map(jnp.asarray, o)
                lp, _ = gf.assess(oj, *args)
                probs.append(float(np.exp(np.asarray(lp, dtype=np.float64))))
            ocodes = [np.asarray(enc(o)).reshape(-1).astype(int) for o in outcomes]
        except Exception as ex:
            impl.reset_handlers()
            ctx.property_failure(None, f"law check raised {type(ex).__name__}: {str(ex)[:160]}", case)
            continue
        tot = sum(probs)
        if abs(tot - 1.0) > 1e-4:
            ctx.property_failure(None, f"exp(assess) over all outcomes sums to {tot}, not 1", case)
            continue
        counts = np.array([(codes == oc).all(axis=1).sum() for oc in ocodes], dtype=float)
        exp_ = np.array(probs) * n_keys
        mask = exp_ > 0
        stat = float((((counts - exp_) ** 2)[mask] / exp_[mask]).sum()) + (1e9 if counts[~mask].sum() > 0 else 0.0)
        thr = chi2_threshold(int(mask.sum()) - 1)
        case.update({"chi2": stat, "threshold": thr, "counts": counts.tolist(), "expected": exp_.tolist()})
        if stat > thr:
            ctx.property_failure(None, f"simulate's outcome frequencies disagree with exp(assess) (chi2={stat:.1f} > {thr:.1f}, {n_keys} keys)", case)
        # score = -assess per draw
        sc = np.asarray(trs.get_score(), dtype=np.float64) if np.ndim(trs.get_score()) else None
        ctx.case(sample={k: case[k] for k in ("kind", "program", "keys", "chi2", "threshold")}, nontrivial_key=("law", name))
        ctx.count("law:" + name)


def c01_modes(ctx):
    """eager = jit = vmap-over-keys for seeded simulate; kwargs; real distributions vs scipy"""
    import jax
    import jax.numpy as jnp
    import jax.random as jr
    from scipy import stats
    G = impl.load()
    normal, flip, exponential = G.normal, G.flip, G.exponential

    @G.gen
    def sub(m, s):
        a = normal(m, s) @ "a"
        return a

    @G.gen
    def model(m, scale=1.0):
        x = normal(m, scale) @ "x"
        f = flip(0.3) @ "f"
        e = exponential(2.0) @ "e"
        v = normal.vmap(in_axes=(0, None))(jnp.array([x, -x, 0.5]), 0.5) @ "v"
        q = sub(x, 2.0) @ "q"
        return x + jnp.sum(v) + q

    def ref_logp(c, m, scale):
        x, f, e, v, q = (np.asarray(c[k], dtype=np.float64) if k != "q" else np.asarray(c["q"]["a"], dtype=np.float64) for k in ("x", "f", "e", "v", "q"))
        lp = stats.norm.logpdf(x, m, scale) + (math.log(0.3) if bool(c["f"]) else math.log(0.7))
        lp += stats.expon.logpdf(e, scale=1 / 2.0)
        lp += stats.norm.logpdf(v, np.array([x, -x, 0.5]), 0.5).sum() + stats.norm.logpdf(q, x, 2.0)
        return float(lp)

    key = jr.key(ctx.seed + 3)
    for mode, kw in (("positional", {}), ("kwargs", {"scale": 1.5})):
        case = {"kind": "modes", "mode": mode}
        try:
            f_sim = lambda k, m: G.seed(model.simulate)(k, m, **kw)
            t_e = f_sim(key, 0.25)
            t_j = jax.jit(f_sim)(key, 0.25)
            t_v = jax.vmap(f_sim, in_axes=(0, None))(jr.split(key, 3), 0.25)
            t_0 = f_sim(jr.split(key, 3)[1], 0.25)
            scale = kw.get("scale", 1.0)
            c = t_e.get_choices()
            if abs(float(t_e.get_score()) + ref_logp(c, 0.25, scale)) > 1e-3 * (1 + abs(float(t_e.get_score()))):
                ctx.property_failure(None, f"simulate score {float(t_e.get_score())} != -(scipy joint log density) {-ref_logp(c, 0.25, scale)}", case)
            lp, r = model.assess(c, 0.25, **kw)
            if abs(float(lp) + float(t_e.get_score())) > 1e-4 * (1 + abs(float(lp))) or abs(float(r) - float(t_e.get_retval())) > 1e-5:
                ctx.property_failure(None, "assess(choices) != -score / retval of the simulated trace", case)
            le, lj = jax.tree_util.tree_leaves(t_e.get_choices()), jax.tree_util.tree_leaves(t_j.get_choices())
            if any(not np.allclose(np.asarray(a, dtype=np.float64), np.asarray(b, dtype=np.float64), rtol=1e-5, atol=1e-6) for a, b in zip(le, lj)):
                ctx.property_failure(None, "jit(seed(simulate)) differs from the eager seeded run with the same key", case)
            lv = jax.tree_util.tree_leaves(jax.tree_util.tree_map(lambda a: a[1], t_v.get_choices()))
            l0 = jax.tree_util.tree_leaves(t_0.get_choices())
            if any(not np.allclose(np.asarray(a, dtype=np.float64), np.asarray(b, dtype=np.float64), rtol=1e-5, atol=1e-6) for a, b in zip(lv, l0)):
                ctx.property_failure(None, "vmap over keys differs from the single seeded run with that key", case)
        except Exception as ex:
            impl.reset_handlers()
            ctx.property_failure(None, f"{mode}: raised {type(ex).__name__}: {str(ex)[:160]}", case)
        ctx.case(sample=case, nontrivial_key=("modes", mode))
        ctx.count("modes:" + mode)


def c01_mixed_cond(ctx, n_keys=4000):
    """Known finding cond-mixed-shape-law (Lean witness C01_simulate_law_fails_on_mixed_cond): a Cond whose branches have
    DIFFERENT address sets exposes the hidden branch's private addresses in get_choices(); they are not part of the density
    assess computes, so the choice map is not distributed according to exp(assess)."""
    import jax
    import jax.numpy as jnp
    import jax.random as jr
    G = impl.load()
    flip = G.flip

    @G.gen
    def tb():
        return flip(0.5) @ "x"

    @G.gen
    def fb():
        x = flip(0.5) @ "x"
        y = flip(0.5) @ "y"
        return x

    cond = G.Cond(tb, fb)
    case = {"kind": "mixed-cond-law", "program": "Cond({x}, {x, y}) with check=True", "keys": n_keys}
    try:
        keys = jr.split(jr.key(ctx.seed + 29), n_keys)
        trs = jax.jit(jax.vmap(lambda k: G.seed(cond.simulate)(k, jnp.array(True))))(keys)
        ch = trs.get_choices()
        if "y" not in ch:
            ctx.case(nontrivial_key=("mixed-cond",))
            return          # hidden-only addresses are not exposed: nothing to report
        both = float(np.mean(np.asarray(ch["x"]) & np.asarray(ch["y"])))
        lp, _ = cond.assess({"x": jnp.array(True), "y": jnp.array(True)}, jnp.array(True))
        p_assess = float(np.exp(float(lp)))
        case.update({"freq_x1_y1": both, "exp_assess": p_assess})
        se = math.sqrt(0.25 * 0.75 / n_keys)
        if abs(both - p_assess) > 5.5 * se:
            # the Lean model predicts frequency 1/4 against exp(assess) = 1/2
            ctx.property_failure("cond-mixed-shape-law", f"Cond with branches of different address sets: P(choices = {{x:1, y:1}}) = {both:.3f} but exp(assess) = {p_assess:.3f}",
                                 case, matches_asis=abs(both - 0.25) < 5.5 * se and abs(p_assess - 0.5) < 1e-4)
    except Exception as ex:
        impl.reset_handlers()
        ctx.property_failure(None, f"mixed-shape Cond law check raised {type(ex).__name__}: {str(ex)[:160]}", case)
    ctx.case(sample=case, nontrivial_key=("mixed-cond",))
    ctx.count("law:mixed-cond")


def cond_mixed_support(ctx, prop):
    """A Cond whose branches put DIFFERENT SUPPORTS on a shared address (uniform(0,1) vs normal(0,2)): a value outside the hidden
    branch's support gives that branch density -inf (score +inf).  Only the taken branch may enter weights: every weight must stay
    the finite density (ratio) of the visible choices.  (Real distributions: the probe densities of the model-based runs are never -inf.)
    Flips INTO the branch for which the value is impossible are not exercised (the weight is legitimately -inf / undefined there)."""
    import jax.numpy as jnp
    import jax.random as jr
    from scipy import stats
    G = impl.load()
    normal, uniform = G.normal, G.uniform

    @G.gen
    def model(flag, m):
        v = G.Cond(uniform, normal)(flag, 0.0, 1.0 + m * 0.0) @ "v"          # True: uniform(0, 1); False: normal(0, 1)
        y = normal(v + m, 0.5) @ "y"
        return v + y

    def lp(v, y, m):      # joint log density with the False (normal) branch visible
        return float(stats.norm(0.0, 1.0).logpdf(v) + stats.norm(v + m, 0.5).logpdf(y))

    F, m0, m1 = jnp.array(False), jnp.float32(0.3), jnp.float32(-0.6)
    case = {"kind": "cond-mixed-support", "property": prop}
    try:
        key = jr.key(ctx.seed + 91)
        # generate with the Cond address constrained OUTSIDE the hidden (uniform) branch's support
        tr, w = G.seed(model.generate)(key, {"v": jnp.float32(1.7), "y": jnp.float32(0.4)}, F, m0)
        want = lp(1.7, 0.4, 0.3)
        if not (abs(float(w) - want) <= 1e-3 * (1 + abs(want))):
            ctx.property_failure(None, f"generate: v=1.7 is impossible only under the branch NOT taken, yet the weight is {float(w)} instead of log p = {want:.4f}", {**case, "op": "generate"})
        if abs(float(tr.get_score()) + want) > 1e-3 * (1 + abs(want)):
            ctx.property_failure(None, f"generate: trace score {float(tr.get_score())} != -log p = {-want:.4f}", {**case, "op": "generate"})
        if prop in ("C03", "C05"):
            t1, w1, _ = model.update(tr, {"y": jnp.float32(0.9)}, F, m1)
            want1 = lp(1.7, 0.9, -0.6) - want
            t2, w2, _ = model.update(t1, {"v": jnp.float32(2.2)}, F, m0)
            want2 = lp(2.2, 0.9, 0.3) - lp(1.7, 0.9, -0.6)
            for nm, got, wnt in (("first update", w1, want1), ("second update", w2, want2)):
                if not (abs(float(got) - wnt) <= 1e-3 * (1 + abs(wnt))):
                    ctx.property_failure(None, f"{nm} (condition unchanged, hidden branch impossible): weight {float(got)} != density ratio {wnt:.4f}", {**case, "op": nm})
            if prop == "C05" and not (abs(float(w1) + float(w2) - (lp(2.2, 0.9, 0.3) - want)) <= 2e-3 * (1 + abs(want))):
                ctx.property_failure(None, "update weights do not telescope on a mixed-support Cond", {**case, "op": "telescope"})
        if prop in ("C04", "C05"):
            from genjax import sel
            for nm, s_, wnt in (("empty selection", sel(), 0.0), ("select all", sel("v") | sel("y"), 0.0)):
                t3, w3, _ = G.seed(model.regenerate)(jr.key(ctx.seed + 92), tr, s_, F, m0)
                if nm == "empty selection" and not (abs(float(w3) - wnt) <= 1e-4):
                    ctx.property_failure(None, f"regenerate with the {nm} on a mixed-support Cond trace: weight {float(w3)} != 0", {**case, "op": nm})
                if nm == "select all" and not np.isfinite(float(w3)):
                    ctx.property_failure(None, f"regenerate ({nm}) on a mixed-support Cond trace: weight {float(w3)} is not finite", {**case, "op": nm})
            t4, w4, _ = G.seed(model.regenerate)(jr.key(ctx.seed + 93), tr, sel("y"), F, m1)
            y4 = float(t4.get_choices()["y"])
            want4 = (lp(1.7, y4, -0.6) - want) - (float(stats.norm(1.7 - 0.6, 0.5).logpdf(y4)) - float(stats.norm(1.7 + 0.3, 0.5).logpdf(0.4)))
            if not (abs(float(w4) - want4) <= 2e-3 * (1 + abs(want4))):
                ctx.property_failure(None, f"regenerate(sel('y'), new args) on a mixed-support Cond trace: weight {float(w4)} != {want4:.4f}", {**case, "op": "regenerate-y"})
    except Exception as ex:
        impl.reset_handlers()
        ctx.property_failure(None, f"mixed-support Cond ({prop}) raised {type(ex).__name__}: {str(ex)[:160]}", case)
    ctx.case(sample=case, nontrivial_key=("cond-mixed-support", prop))
    ctx.count("cond-mixed-support")


def real_distribution_keyword_lanes(ctx, prop):
    """Real distributions (the probe densities of the model-based runs take positional parameters only) whose parameter is passed by
    KEYWORD and VARIES PER LANE / PER STEP inside a Vmap / a Scan: scores, assess, generate / update weights vs scipy, lane by lane.
    A batching rule that maps the positional parameters but broadcasts the keyword ones keeps every internal identity
    (weight == assess difference, score == -assess) and is only visible against an independent density."""
    import jax.numpy as jnp
    import jax.random as jr
    from scipy import stats
    G = impl.load()
    normal = G.normal

    @G.gen
    def lane(mu, s):
        x = normal(mu, 1.0) @ "x"
        return normal(x, scale=s) @ "y"          # the per-lane parameter reaches the distribution by keyword

    @G.gen
    def model(mu, ss):
        ys = lane.vmap(in_axes=(None, 0))(mu, ss) @ "v"
        return normal(jnp.sum(ys), scale=2.0) @ "o"

    @G.gen
    def step(c, s):
        y = normal(c, scale=s) @ "y"
        return y * 0.5, y

    @G.gen
    def smodel(mu, ss):
        c, ys = G.Scan(step, length=G.const(3))(mu, ss) @ "s"
        return normal(c, scale=2.0) @ "o"

    ss = jnp.array([0.5, 1.0, 2.0], jnp.float32)
    mu = jnp.float32(0.3)

    def lp_v(x, y, o, mu_):
        x, y = np.asarray(x, np.float64), np.asarray(y, np.float64)
        return float(np.sum(stats.norm(float(mu_), 1.0).logpdf(x) + stats.norm(x, np.asarray(ss, np.float64)).logpdf(y)) + stats.norm(y.sum(), 2.0).logpdf(float(o)))

    def lp_s(y, o, mu_):
        y = np.asarray(y, np.float64)
        c, tot = float(mu_), 0.0
        for t in range(3):
            tot += stats.norm(c, float(ss[t])).logpdf(y[t])
            c = y[t] * 0.5
        return float(tot + stats.norm(c, 2.0).logpdf(float(o)))

    def close(a, b):
        return abs(float(a) - b) <= 2e-3 * (1 + abs(b))

    case = {"kind": "keyword-lanes", "property": prop}
    try:
        key = jr.key(ctx.seed + 31)
        # ---- Vmap
        tr = G.seed(model.simulate)(key, mu, ss)
        ch = tr.get_choices()
        want = lp_v(ch["v"]["x"], ch["v"]["y"], ch["o"], mu)
        if not close(-tr.get_score(), want):
            ctx.property_failure(None, f"Vmap lane with a per-lane KEYWORD parameter: simulate score {float(tr.get_score()):.4f} != -log p = {-want:.4f} (scipy, lane by lane)", {**case, "op": "simulate"})
        if prop == "C01":
            a, _ = model.assess(ch, mu, ss)
            if not close(a, want):
                ctx.property_failure(None, f"Vmap lane with a per-lane KEYWORD parameter: assess {float(a):.4f} != log p = {want:.4f}", {**case, "op": "assess"})
        ycon = jnp.array([0.4, -0.7, 1.9], jnp.float32)
        t2, w = G.seed(model.generate)(key, {"v": {"y": ycon}}, mu, ss)
        x2 = np.asarray(t2.get_choices()["v"]["x"], np.float64)
        want_w = float(np.sum(stats.norm(x2, np.asarray(ss, np.float64)).logpdf(np.asarray(ycon, np.float64))))
        if prop in ("C02", "C05") and not close(w, want_w):
            ctx.property_failure(None, f"generate with the keyword-parameterised lane site constrained: weight {float(w):.4f} != sum over lanes of log N(y_i; x_i, s_i) = {want_w:.4f}", {**case, "op": "generate"})
        if prop in ("C03", "C05"):
            y3 = jnp.array([0.1, 0.2, -0.3], jnp.float32)
            t3, w3, _ = model.update(t2, {"v": {"y": y3}}, mu, ss)
            c2, c3 = t2.get_choices(), t3.get_choices()
            want3 = lp_v(c3["v"]["x"], c3["v"]["y"], c3["o"], mu) - lp_v(c2["v"]["x"], c2["v"]["y"], c2["o"], mu)
            if not close(w3, want3):
                ctx.property_failure(None, f"update of the keyword-parameterised lane site: weight {float(w3):.4f} != density ratio {want3:.4f}", {**case, "op": "update"})
        if prop in ("C04", "C05"):
            from genjax import sel
            t4, w4, _ = G.seed(model.regenerate)(jr.key(ctx.seed + 32), t2, sel({"v": sel("x")}), mu, ss)
            c2, c4 = t2.get_choices(), t4.get_choices()
            # regenerating x from its prior: weight = ratio of the downstream densities  N(y; x', s) / N(y; x, s)
            want4 = float(np.sum(stats.norm(np.asarray(c4["v"]["x"], np.float64), np.asarray(ss, np.float64)).logpdf(np.asarray(c4["v"]["y"], np.float64))
                                 - stats.norm(np.asarray(c2["v"]["x"], np.float64), np.asarray(ss, np.float64)).logpdf(np.asarray(c2["v"]["y"], np.float64))))
            if not close(w4, want4):
                ctx.property_failure(None, f"regenerate of the lanes' x: weight {float(w4):.4f} != ratio of the keyword-parameterised downstream densities {want4:.4f}", {**case, "op": "regenerate"})
        # ---- Scan
        trs = G.seed(smodel.simulate)(key, mu, ss)
        cs = trs.get_choices()
        want_s = lp_s(cs["s"]["y"], cs["o"], mu)
        if not close(-trs.get_score(), want_s):
            ctx.property_failure(None, f"Scan step with a per-step KEYWORD parameter: simulate score {float(trs.get_score()):.4f} != -log p = {-want_s:.4f}", {**case, "op": "scan-simulate"})
        ts2, ws2 = G.seed(smodel.generate)(key, {"s": {"y": ycon}}, mu, ss)
        want_ws = lp_s(ycon, ts2.get_choices()["o"], mu) - float(stats.norm(float(ycon[2]) * 0.5, 2.0).logpdf(float(ts2.get_choices()["o"])))
        if prop in ("C02", "C05") and not close(ws2, want_ws):
            ctx.property_failure(None, f"Scan generate with the keyword-parameterised step site constrained: weight {float(ws2):.4f} != {want_ws:.4f}", {**case, "op": "scan-generate"})
    except Exception as ex:
        impl.reset_handlers()
        ctx.property_failure(None, f"keyword-parameterised lane sites raised {type(ex).__name__}: {str(ex)[:160]}", case)
    ctx.case(sample=case, nontrivial_key=("keyword-lanes", prop))
    ctx.count("keyword-lanes")
