"""Seeded programs for C06/C07: structure terms, the real function built from them with a
key-revealing probe sampler, the Lean model's key paths, and their evaluation with jax.random."""
import numpy as np

import common
import sexp


def probe_key(G):
    """sampler whose 'sample' is the raw key data it was called with (broadcast over sample_shape)"""
    import jax
    import jax.numpy as jnp
    from genjax.pjax import wrap_sampler

    def keyful(key, sample_shape=()):
        kd = jax.random.key_data(key).astype(jnp.uint32)
        return jnp.broadcast_to(kd, tuple(sample_shape) + kd.shape)

    return wrap_sampler(keyful, name="probe_key")


# program: list of stmts: ("site", id) | ("vsite", id, n) | ("cond", taken_is_true, prog) | ("scan", prog, n) | ("other",)
def gen_prog(rng, depth, counter=None):
    counter = counter if counter is not None else [0]
    out = []
    for _ in range(rng.randint(1, 3)):
        r = rng.random()
        if r < 0.45 or depth == 0:
            counter[0] += 1
            out.append(("site", counter[0]) if rng.random() < 0.8 else ("vsite", counter[0], rng.randint(2, 3)))
        elif r < 0.65:
            out.append(("cond", rng.random() < 0.5, gen_prog(rng, depth - 1, counter)))
        elif r < 0.9:
            out.append(("scan", gen_prog(rng, depth - 1, counter), rng.randint(1, 3)))
        else:
            out.append(("other",))
    return out


def to_sexp(prog):
    out = []
    for s in prog:
        if s[0] in ("site", "vsite"):
            out.append(["site", s[1]])
        elif s[0] == "cond":
            out.append(["cond", to_sexp(s[2])])
        elif s[0] == "scan":
            out.append(["scan", to_sexp(s[1]), s[2]])
        else:
            out.append("other")
    return out


def build(G, prog):
    """f(p) -> flat list of key-bit arrays, one per site occurrence in program order (scan sites stacked)"""
    import jax
    import jax.numpy as jnp
    pk = probe_key(G)

    def run(stmts, p):
        outs = []
        for s in stmts:
            k = s[0]
            if k == "site":
                outs.append(pk())
            elif k == "vsite":
                outs.append(G.modular_vmap(lambda: pk(), in_axes=(), axis_size=s[2])())
            elif k == "cond":
                pred = (p > 0) if s[1] else (p < 0)
                outs += list(jax.lax.cond(pred, lambda q: tuple(run(s[2], q)), lambda q: tuple(run(s[2], q * 1.0)), p))
            elif k == "scan":
                def body(c, x, s=s):
                    return c + 1.0, tuple(run(s[1], p))
                _, ys = jax.lax.scan(body, 0.0, jnp.arange(s[2]))
                outs += list(ys)
            else:
                p = p * 1.0 + 0.0
        return outs

    return lambda p: run(prog, p)


def model_keys(prog):
    r = sexp.loads(common.driver_run([sexp.dumps(["seed", to_sexp(prog)])])[0])
    return [(int(e[0]), tuple(int(i) for i in e[1]), e[2]) for e in r[1:]]


def eval_path(path, key):
    import jax.random as jr
    if path == "root":
        return key
    if path[0] == "L":
        return jr.split(eval_path(path[1], key))[0]
    if path[0] == "R":
        return jr.split(eval_path(path[1], key))[1]
    if path[0] == "fold":
        return jr.fold_in(eval_path(path[1], key), int(path[2]))
    raise ValueError(path)


def site_order(prog):
    """ids of site occurrences in the order of the function's flat output list"""
    out = []
    for s in prog:
        if s[0] in ("site", "vsite"):
            out.append((s[1], s[0] == "vsite"))
        elif s[0] == "cond":
            out += site_order(s[2])
        elif s[0] == "scan":
            out += site_order(s[1])
    return out


def expected_outputs(prog, key):
    """{(id, iters): key bits} predicted by the Lean model + real jax.random"""
    import jax
    out = {}
    for sid, iters, path in model_keys(prog):
        out[(sid, iters)] = np.asarray(jax.random.key_data(eval_path(path, key)))
    return out


def observed_outputs(prog, outs):
    """{(id, iters): key bits} from the function's outputs (vsite rows must all be equal)"""
    order = site_order(prog)
    res, vs_ok = {}, True
    for (sid, is_v), arr in zip(order, outs):
        a = np.asarray(arr)
        if is_v:
            # shape (iters..., n, 2): all lanes share one key
            if not (a == a[..., :1, :]).all():
                vs_ok = False
            a = a[..., 0, :]
        it_shape = a.shape[:-1]
        for idx in np.ndindex(*it_shape):
            res[(sid, tuple(int(i) for i in idx))] = a[idx]
    return res, vs_ok
