"""Seeded programs for C06/C07: structure terms, the real function built from them with a
key-revealing probe sampler, the Lean model's key paths, and their evaluation with jax.random."""
import numpy as np

import common
import sexp


def probe_key(G):
    """sampler whose 'sample' is the raw key data it was called with (broadcast over sample_shape)"""
    import jax
    import jax.numpy as jnp
    from genjax.pjax import wrap_sampler

    def keyful(key, sample_shape=()):
        kd = jax.random.key_data(key).astype(jnp.uint32)
        return jnp.broadcast_to(kd, tuple(sample_shape) + kd.shape)

    return wrap_sampler(keyful, name="probe_key")


INFO = 11  # width of a probe_shape entry: 2 key words, 1 + 4 words sample_shape, 1 + 3 words parameter batch shape


def probe_shape(G):
    """sampler with one parameter whose 'sample' reveals the key AND the static `sample_shape` / parameter batch shape of
    the very sampler call that produced it: every entry is [key bits (2), len(ss), ss padded to 4, len(pa), pa padded to 3];
    the returned array has the contract layout sample_shape + parameter batch shape + event shape (INFO,)"""
    import jax
    import jax.numpy as jnp
    from genjax.pjax import wrap_sampler

    def keyful(key, a, sample_shape=()):
        ss, pa = tuple(int(d) for d in sample_shape), tuple(int(d) for d in jnp.shape(a))
        assert len(ss) <= 4 and len(pa) <= 3
        kd = jax.random.key_data(key).astype(jnp.uint32)
        meta = [len(ss), *ss, *([0] * (4 - len(ss))), len(pa), *pa, *([0] * (3 - len(pa)))]
        # (no array constants: the batching rule re-binds the sampler with the flat argument list, hoisted constants included)
        info = jnp.stack([kd[0], kd[1]] + [kd[0] * 0 + v for v in meta])
        return jnp.broadcast_to(info, ss + pa + (INFO,))

    return wrap_sampler(keyful, name="probe_shape")


def decode_info(row):
    """(key bits, sample_shape, parameter batch shape) from one probe_shape entry"""
    row = [int(x) for x in row]
    ss = tuple(row[3:3 + row[2]])
    pa = tuple(row[8:8 + row[7]])
    return np.asarray(row[:2], dtype=np.uint32), ss, pa


# program: list of stmts:
#          | ("vsite2", id, ((n, batched), ... levels outermost first), own_sample_shape)   (probe_shape; gen_prog_vec only)
# (old)  ("site", id) | ("vsite", id, n) | ("cond", taken_is_true, prog) | ("scan", prog, n) | ("other",)
def gen_prog(rng, depth, counter=None):
    counter = counter if counter is not None else [0]
    out = []
    for _ in range(rng.randint(1, 3)):
        r = rng.random()
        if r < 0.45 or depth == 0:
            counter[0] += 1
            out.append(("site", counter[0]) if rng.random() < 0.8 else ("vsite", counter[0], rng.randint(2, 3)))
        elif r < 0.65:
            out.append(("cond", rng.random() < 0.5, gen_prog(rng, depth - 1, counter)))
        elif r < 0.9:
            out.append(("scan", gen_prog(rng, depth - 1, counter), rng.randint(1, 3)))
        else:
            out.append(("other",))
    return out


def gen_prog_vec(rng, depth, counter=None):
    """like gen_prog, but most sites are vectorised sites with nested vmap levels (batched or not) and an own sample_shape"""
    counter = counter if counter is not None else [0]
    out = []
    for _ in range(rng.randint(1, 2)):
        r = rng.random()
        if r < 0.55 or depth == 0:
            counter[0] += 1
            if rng.random() < 0.15:
                out.append(("site", counter[0]))
            else:
                levels = tuple((rng.randint(2, 3), rng.random() < 0.5) for _ in range(rng.randint(0, 2)))
                own = tuple(rng.randint(1, 3) for _ in range(rng.randint(0, 2)))
                out.append(("vsite2", counter[0], levels, own))
        elif r < 0.7:
            out.append(("cond", rng.random() < 0.5, gen_prog_vec(rng, depth - 1, counter)))
        elif r < 0.95:
            out.append(("scan", gen_prog_vec(rng, depth - 1, counter), rng.randint(1, 3)))
        else:
            out.append(("other",))
    return out


def to_sexp(prog):
    out = []
    for s in prog:
        if s[0] in ("site", "vsite", "vsite2"):
            out.append(["site", s[1]])
        elif s[0] == "cond":
            out.append(["cond", to_sexp(s[2])])
        elif s[0] == "scan":
            out.append(["scan", to_sexp(s[1]), s[2]])
        else:
            out.append("other")
    return out


def to_sexp_vec(prog):
    """the same program for the `seedvec` driver command (Model/SeedVec.lean)"""
    out = []
    for s in prog:
        if s[0] == "site":
            out.append(["vsite", s[1], [], []])
        elif s[0] == "vsite":
            out.append(["vsite", s[1], [[s[2], "F"]], []])
        elif s[0] == "vsite2":
            out.append(["vsite", s[1], [[n, "T" if b else "F"] for (n, b) in s[2]], list(s[3])])
        elif s[0] == "cond":
            out.append(["cond", to_sexp_vec(s[2])])
        elif s[0] == "scan":
            out.append(["scan", to_sexp_vec(s[1]), s[2]])
        else:
            out.append("other")
    return out


def build(G, prog):
    """f(p) -> flat list of key-bit arrays, one per site occurrence in program order (scan sites stacked)"""
    import jax
    import jax.numpy as jnp
    pk = probe_key(G)
    ps = probe_shape(G)

    def nest(levels, own, a):
        if not levels:
            return ps(a, sample_shape=tuple(own))
        (n, batched), rest = levels[0], levels[1:]
        if batched:   # the lanes come from a batched parameter
            return G.modular_vmap(lambda ai: nest(rest, own, ai), in_axes=(0,))(a + jnp.zeros(n, jnp.float32))
        return G.modular_vmap(lambda: nest(rest, own, a), in_axes=(), axis_size=n)()

    def run(stmts, p):
        outs = []
        for s in stmts:
            k = s[0]
            if k == "site":
                outs.append(pk())
            elif k == "vsite":
                outs.append(G.modular_vmap(lambda: pk(), in_axes=(), axis_size=s[2])())
            elif k == "vsite2":
                outs.append(nest(list(s[2]), s[3], p))
            elif k == "cond":
                pred = (p > 0) if s[1] else (p < 0)
                outs += list(jax.lax.cond(pred, lambda q: tuple(run(s[2], q)), lambda q: tuple(run(s[2], q * 1.0)), p))
            elif k == "scan":
                def body(c, x, s=s):
                    return c + 1.0, tuple(run(s[1], p))
                _, ys = jax.lax.scan(body, 0.0, jnp.arange(s[2]))
                outs += list(ys)
            else:
                p = p * 1.0 + 0.0
        return outs

    return lambda p: run(prog, p)


def model_keys(prog):
    r = sexp.loads(common.driver_run([sexp.dumps(["seed", to_sexp(prog)])])[0])
    return [(int(e[0]), tuple(int(i) for i in e[1]), e[2]) for e in r[1:]]


def eval_path(path, key):
    import jax.random as jr
    if path == "root":
        return key
    if path[0] == "L":
        return jr.split(eval_path(path[1], key))[0]
    if path[0] == "R":
        return jr.split(eval_path(path[1], key))[1]
    if path[0] == "fold":
        return jr.fold_in(eval_path(path[1], key), int(path[2]))
    raise ValueError(path)


def site_order(prog):
    """ids of site occurrences in the order of the function's flat output list"""
    out = []
    for s in prog:
        if s[0] in ("site", "vsite", "vsite2"):
            out.append((s[1], s[0] == "vsite") if s[0] != "vsite2" else (s[1], s))
        elif s[0] == "cond":
            out += site_order(s[2])
        elif s[0] == "scan":
            out += site_order(s[1])
    return out


def expected_outputs(prog, key):
    """{(id, iters): key bits} predicted by the Lean model + real jax.random"""
    import jax
    out = {}
    for sid, iters, path in model_keys(prog):
        out[(sid, iters)] = np.asarray(jax.random.key_data(eval_path(path, key)))
    return out


def observed_outputs(prog, outs):
    """{(id, iters): key bits} from the function's outputs (vsite rows must all be equal)"""
    order = site_order(prog)
    res, vs_ok = {}, True
    for (sid, is_v), arr in zip(order, outs):
        a = np.asarray(arr)
        if isinstance(is_v, tuple):
            # probe_shape site: shape (iters..., lanes..., own..., INFO): all entries come from one call
            n_it = a.ndim - 1 - len(is_v[2]) - len(is_v[3])
            a = a.reshape(a.shape[:n_it] + (-1, INFO))
            if not (a == a[..., :1, :]).all():
                vs_ok = False
            a = a[..., 0, :2]
        elif is_v:
            # shape (iters..., n, 2): all lanes share one key
            if not (a == a[..., :1, :]).all():
                vs_ok = False
            a = a[..., 0, :]
        it_shape = a.shape[:-1]
        for idx in np.ndindex(*it_shape):
            res[(sid, tuple(int(i) for i in idx))] = a[idx]
    return res, vs_ok


def model_calls(prog):
    """[(id, iters, key path, sample_shape, returned shape)] of the Lean model with vectorised sites"""
    r = sexp.loads(common.driver_run([sexp.dumps(["seedvec", to_sexp_vec(prog)])])[0])
    return [(int(e[0]), tuple(int(i) for i in e[1]), e[2], tuple(int(i) for i in e[3]), tuple(int(i) for i in e[4])) for e in r[1:]]


def expected_calls(prog, key):
    """{(id, iters): (key bits, sample_shape, returned shape)} predicted by Model/SeedVec.lean + real jax.random"""
    import jax
    return {(sid, iters): (np.asarray(jax.random.key_data(eval_path(path, key))), ss, ret)
            for sid, iters, path, ss, ret in model_calls(prog)}


def observed_calls(prog, outs):
    """{(id, iters): (key bits, sample_shape or None if the probe cannot reveal it, returned shape)} and whether all
    entries of every vectorised site stem from ONE sampler call (same key, same static shapes)"""
    order = site_order(prog)
    res, one_call = {}, True
    for (sid, kind), arr in zip(order, outs):
        a = np.asarray(arr)
        if isinstance(kind, tuple):
            n_it = a.ndim - 1 - len(kind[2]) - len(kind[3])
            flat = a.reshape(a.shape[:n_it] + (-1, INFO))
            if not (flat == flat[..., :1, :]).all():
                one_call = False
            for idx in np.ndindex(*a.shape[:n_it]):
                kb, ss, pa = decode_info(flat[idx][0])
                res[(sid, tuple(int(i) for i in idx))] = (kb, ss, ss + pa)
        else:
            n_tail = 2 if kind else 1                      # (n, 2) for the one-level unbatched vsite, (2,) for a site
            if kind and not (a == a[..., :1, :]).all():
                one_call = False
            for idx in np.ndindex(*a.shape[:a.ndim - n_tail]):
                row = a[idx]
                res[(sid, tuple(int(i) for i in idx))] = (row[0] if kind else row, None, tuple(a.shape[a.ndim - n_tail:-1]))
    return res, one_call


def from_json(prog):
    """programs as tuples again after a JSON round trip (replay files)"""
    out = []
    for s in prog:
        if s[0] == "cond":
            out.append(("cond", s[1], from_json(s[2])))
        elif s[0] == "scan":
            out.append(("scan", from_json(s[1]), s[2]))
        elif s[0] == "vsite2":
            out.append(("vsite2", s[1], tuple((int(n), bool(b)) for n, b in s[2]), tuple(int(d) for d in s[3])))
        else:
            out.append(tuple(s))
    return out
