"""Translator for C13: regenerates, from /repo's CURRENT source of genjax/distributions.py, the table
    genjax name -> (TFP distribution class, how each TFP constructor parameter is fed from the genjax arguments)
as a Lean definition, and has Lean re-check `implTable = DistDoc.docTable` (the documented table the C13 spec terms are written
for).  The extraction is source-driven (the `name = tfp_distribution(<constructor>, ...)` assignments are found with `ast`) but
semantic: the constructor expression is evaluated and called on a valid parameter point, and the resulting TFP object is inspected,
so a behaviour-preserving rewrite of the constructor (class vs lambda, positional vs keyword) gives the same table."""
from __future__ import annotations

import ast
import os

import numpy as np


def extract(repo, points):
    """points: {name: (args tuple, kwargs dict)} valid parameter points. Returns {name: (cls, [(tfp_param, source), ...])}"""
    import jax
    import jax.numpy as jnp
    from tensorflow_probability.substrates import jax as tfp
    path = os.path.join(repo, "src", "genjax", "distributions.py")
    src = open(path).read()
    tree = ast.parse(src)
    ns = {"tfd": tfp.distributions, "tfp": tfp, "jnp": jnp, "jax": jax, "np": np}
    out = {}
    for node in tree.body:
        if not (isinstance(node, ast.Assign) and isinstance(node.value, ast.Call)):
            continue
        fn = node.value.func
        if not (isinstance(fn, ast.Name) and fn.id == "tfp_distribution") or not node.value.args:
            continue
        name = node.targets[0].id
        if name not in points:
            out[name] = ("?", [("no-parameter-point", "?")])
            continue
        ctor = eval(compile(ast.Expression(node.value.args[0]), path, "eval"), ns)
        args, kw = points[name]
        try:
            d = ctor(*[jnp.asarray(a) for a in args], **{k: jnp.asarray(v) for k, v in kw.items()})
        except Exception as e:
            out[name] = ("!", [("constructor-raised", type(e).__name__)])
            continue
        feeds = []
        for pname, pval in sorted(d.parameters.items()):
            if pval is None or pname in ("validate_args", "allow_nan_stats", "name", "dtype", "force_probs_to_zero_outside_support"):
                continue
            if isinstance(pval, (bool, int, str)):      # behavioural flags / iteration limits, not distribution parameters
                continue
            src_of = "derived"
            for i, a in enumerate(args):
                if np.shape(a) == np.shape(pval) and np.allclose(np.asarray(a, dtype=np.float64), np.asarray(pval, dtype=np.float64)):
                    src_of = f"arg{i}"
            for k, v in kw.items():
                if np.shape(v) == np.shape(pval) and np.allclose(np.asarray(v, dtype=np.float64), np.asarray(pval, dtype=np.float64)):
                    src_of = f"kw:{k}"
            feeds.append((pname, src_of))
        out[name] = (type(d).__name__, feeds)
    return out


def lean_table(tab, defname="implTable"):
    rows = []
    for name in sorted(tab):
        cls, feeds = tab[name]
        fs = ", ".join(f'("{p}", "{s}")' for p, s in feeds)
        rows.append(f'  ("{name}", "{cls}", [{fs}])')
    return f"def {defname} : List (String × String × List (String × String)) := [\n" + ",\n".join(rows) + "\n]\n"


def obligation(lean_dir, tab):
    """write the regenerated table to a scratch Lean file and let Lean check `implTable = DistDoc.docTable`; returns (ok, log)"""
    import subprocess
    adir = os.path.join(lean_dir, ".lake", "audit")
    os.makedirs(adir, exist_ok=True)
    f = os.path.join(adir, f"DistTable_{os.getpid()}.lean")
    with open(f, "w") as fh:
        fh.write("import GenjaxModel.Model.DistDoc\nopen Genjax.DistDoc\n\n/- regenerated from src/genjax/distributions.py by harness/dist_translate.py -/\n")
        fh.write(lean_table(tab))
        fh.write("\ntheorem implTable_is_documented : implTable = docTable := by decide\n")
    p = subprocess.run(["lake", "env", "lean", f], cwd=lean_dir, capture_output=True, text=True, timeout=1200)
    os.unlink(f)
    return p.returncode == 0, (p.stdout + p.stderr)[-1500:]
