"""Run GFI cases on the implementation and on the Lean model; compare; apply the property monitors."""
from __future__ import annotations

import itertools
import json
from fractions import Fraction as Fr

import numpy as np

import common
import gfi
import impl
import sexp
from props import c16 as selmod

FLAGS = ["condSwitchCorrection", "scanRegenDefined", "condDiscardVisible", "vmapEmptyConstraint", "condUpdateFill"]
FLAG_CLASS = {
    "condSwitchCorrection": "cond-switch-weight",
    "scanRegenDefined": "scan-regenerate-raises",
    "condDiscardVisible": "cond-discard-hidden-branch",
    "vmapEmptyConstraint": "vmap-generate-none",
    "condUpdateFill": "cond-update-hidden-values",
}
TOL = 1e-4


def close(a, b):
    a, b = float(a), float(b)
    return abs(a - b) <= TOL * (1 + abs(a) + abs(b))


def lm_close(a, b):
    return set(a) == set(b) and all(close(a[k], b[k]) for k in a)


def seq_close(a, b):
    return len(a) == len(b) and all(close(x, y) for x, y in zip(a, b))


# ------------------------------------------------------------------ implementation side
class ImplRunner:
    def __init__(self, G, g):
        import jax.random as jr
        self.G = G
        self.g = g
        self.gf = gfi.build(G, g)
        self.key = jr.key(7)
        self.tr = None
        self.args = None

    def _args(self, args):
        out = [gfi.to_jnp(a) for a in args]
        g = self.g
        if g[0] == "cond" or (g[0] == "vmap" and g[1][0] == "cond"):
            out[0] = out[0] != 0          # a top-level Cond wants a boolean check (term language: non-zero)
        return out

    def observe(self, tr):
        out = {
            "choices": gfi.leafmap(gfi.canon(self.g, tr.get_choices())),
            "score": Fr(float(tr.get_score())),
            "retval": gfi.retval_flat(tr.get_retval()),
        }
        if self.g[0] != "vmap":      # a top-level Vmap trace IS the batched callee trace (known finding vmap-trace-no-wrapper)
            try:
                ra = tr.get_args()
                out["args"] = gfi.retval_flat(ra)
            except Exception as e:  # pragma: no cover
                out["args_error"] = repr(e)
        sc = np.asarray(tr.get_score())
        if sc.shape != ():
            out["score_shape"] = list(sc.shape)
        return out

    def run(self, op):
        G = self.G
        kind = op[0]
        try:
            if kind == "simulate":
                tr = G.seed(self.gf.simulate)(self.key, *self._args(op[1]))
                self.tr, self.args = tr, op[1]
                return {"ok": True, **self.observe(tr)}
            if kind == "assess":
                lp, r = self.gf.assess(gfi.cm_to_impl(op[1]), *self._args(op[2]))
                return {"ok": True, "logp": Fr(float(np.sum(np.asarray(lp)))), "retval": gfi.retval_flat(r),
                        "logp_shape": list(np.asarray(lp).shape)}
            if kind == "generate":
                tr, w = G.seed(self.gf.generate)(self.key, gfi.cm_to_impl(op[1]), *self._args(op[2]))
                self.tr, self.args = tr, op[2]
                return {"ok": True, **self.observe(tr), "w": Fr(float(w))}
            if kind == "update":
                if len(op) > 3 and op[3] == "conv":
                    # convenience form: trace.update(constraints) re-uses the arguments STORED in the trace
                    tr, w, d = self.tr.update(gfi.cm_to_impl(op[1]))
                else:
                    tr, w, d = self.gf.update(self.tr, gfi.cm_to_impl(op[1]), *self._args(op[2]))
                old = self.tr
                self.tr, self.args = tr, op[2]
                return {"ok": True, **self.observe(tr), "w": Fr(float(w)), "discard": gfi.leafmap(gfi.canon(self.g, d)),
                        "_discard_raw": d, "_old": old}
            if kind == "regenerate":
                s = selmod.to_impl(G, op[1])
                tr, w, d = G.seed(self.gf.regenerate)(self.key, self.tr, s, *self._args(op[2]))
                self.tr, self.args = tr, op[2]
                return {"ok": True, **self.observe(tr), "w": Fr(float(w)), "discard": gfi.leafmap(gfi.canon(self.g, d))}
            raise ValueError(kind)
        except Exception as e:
            impl.reset_handlers()
            return {"ok": False, "error": f"{type(e).__name__}: {str(e)[:200]}"}


# ------------------------------------------------------------------ model side
def op_sexp(op):
    k = op[0]
    if k == "simulate":
        return ["simulate", gfi.val_sexp(op[1])]
    if k == "assess":
        return ["assess", gfi.cm_sexp(op[1]), gfi.val_sexp(op[2])]
    if k in ("generate", "update"):
        return [k, gfi.cm_sexp(op[1]), gfi.val_sexp(op[2])]
    if k == "regenerate":
        return ["regenerate", selmod.to_sexp(op[1]), gfi.val_sexp(op[2])]
    raise ValueError(op)


def model_line(cfg, g, ops):
    return sexp.dumps(["gfi", cfg, gfi.gf_sexp(g)] + [op_sexp(o) for o in ops])


def parse_model(line):
    r = sexp.loads(line)
    if r[0] != "results":
        raise common.Infra("model driver: " + line[:200])
    out = []
    for item in r[1:]:
        if item[0] != "ok":
            out.append({"ok": False, "error": item[0]})
            continue
        d = {"ok": True}
        for kv in item[1:]:
            k = kv[0]
            if k in ("choices", "discard"):
                d[k] = gfi.leafmap(gfi.parse_cm(kv[1]))
                if k == "choices" and kv[1] == "err":
                    d["choices_err"] = True
            elif k in ("score", "w", "logp"):
                d[k] = Fr(kv[1])
            elif k == "retval":
                d[k] = gfi.flat(gfi.parse_val(kv[1]))
        out.append(d)
    return out


def same(a, b, overwritten=None):
    """implementation observation a vs model observation b"""
    if a["ok"] != b["ok"]:
        return False
    if not a["ok"]:
        return True
    for k in ("score", "w", "logp"):
        if k in b and not close(a[k], b[k]):
            return False
    if "retval" in b and not seq_close(a["retval"], b["retval"]):
        return False
    if "choices" in b and not lm_close(a["choices"], b["choices"]):
        return False
    if "discard" in b and overwritten is not None:
        da = {p: v for p, v in a.get("discard", {}).items() if gfi.strip_lanes(p) in overwritten}
        db = {p: v for p, v in b["discard"].items() if gfi.strip_lanes(p) in overwritten}
        if not lm_close(da, db):
            return False
    return True


def cfg_str(asis_flags):
    return "".join("F" if f in asis_flags else "T" for f in FLAGS)


def classify(g, ops, impl_obs, overwritten):
    """smallest set of asis flags under which the model reproduces the implementation's observations"""
    combos = []
    for r in range(0, len(FLAGS) + 1):
        combos += [set(c) for c in itertools.combinations(FLAGS, r)]
    lines = [model_line(cfg_str(c), g, ops) for c in combos]
    outs = common.driver_run(lines)
    for c, line in zip(combos, outs):
        mo = parse_model(line)
        if all(same(a, b, ow) for a, b, ow in zip(impl_obs, mo, overwritten)):
            return c
    return None


def strip(obs):
    return {k: v for k, v in obs.items() if not k.startswith("_")}


def jsonable(x):
    if isinstance(x, Fr):
        return str(x)
    if isinstance(x, dict):
        return {("/".join(map(str, k)) if isinstance(k, tuple) else str(k)): jsonable(v) for k, v in x.items()}
    if isinstance(x, (list, tuple, set)):
        return [jsonable(v) for v in x]
    return x


def case_json(g, ops):
    return {"g": sexp.dumps(gfi.gf_sexp(g)), "ops": [sexp.dumps(op_sexp(o)) for o in ops], "_g": jsonable(g), "_ops": jsonable(ops)}


# ------------------------------------------------------------------ property monitors (specification oracle)
def lpsum(sites):
    return sum((lp for lp, _ in sites.values()), Fr(0))


def oracle(g, choices, args):
    conds = {}
    cm = gfi.cm_from_leafmap(g, choices)
    ret, sites = gfi.ref_run(g, cm, args, conds=conds)
    return ret, sites, conds


def mon_coherent(g, obs, args, fails, tag):
    """score = -assess(choices; recorded args), retval = program's return value (C01/C05)"""
    if "score_shape" in obs:
        fails.append((tag, f"trace score is not a scalar (shape {obs['score_shape']})"))
    try:
        ret, sites, _ = oracle(g, obs["choices"], args)
    except gfi.Missing as e:
        fails.append((tag, f"choices lack address {e}"))
        return None
    if not close(obs["score"], -lpsum(sites)):
        fails.append((tag, f"score {float(obs['score'])} != -sum of site log densities {float(-lpsum(sites))}"))
    if not seq_close(obs["retval"], gfi.flat(ret)):
        fails.append((tag, f"retval {list(map(float, obs['retval']))} != program return value {list(map(float, gfi.flat(ret)))}"))
    if "args" in obs and not seq_close(obs["args"], gfi.flat(args)):
        fails.append((tag, "recorded args differ from the arguments of the operation"))
    return sites


def mon_generate(g, C, obs, args, fails, tag):
    sites = mon_coherent(g, obs, args, fails, tag)
    if sites is None:
        return
    X = obs["choices"]
    for p, v in C.items():
        if p in X and X[p] != v:
            fails.append((tag, f"constrained address {p} holds {float(X[p])}, constraint was {float(v)}"))
    want_w = sum((lp for p, (lp, _) in sites.items() if p in C), Fr(0))
    if not close(obs["w"], want_w):
        fails.append((tag, f"generate weight {float(obs['w'])} != sum of constrained site log densities {float(want_w)}"))
    fresh = {p for p in sites if p not in C}
    if fresh:
        cm = gfi.cm_from_leafmap(g, X)
        _, s2 = gfi.ref_run(g, cm, args, fresh=fresh)
        for p in fresh:
            if p in s2 and not close(s2[p][1], X[p]):
                fails.append((tag, f"unconstrained address {p} = {float(X[p])} is not the probe draw from its conditional prior {float(s2[p][1])}"))
                break


def mon_update(g, old, old_args, C, obs, args, fails, tag):
    sites_new = mon_coherent(g, obs, args, fails, tag)
    if sites_new is None:
        return
    try:
        _, sites_old, _ = oracle(g, old["choices"], old_args)
    except gfi.Missing:
        return
    N, O = obs["choices"], old["choices"]
    for p in N:
        want = C[p] if p in C else O.get(p)
        if want is not None and (p in sites_new) and (p in sites_old or p in C) and N[p] != want:
            fails.append((tag, f"address {p}: new value {float(N[p])}, expected {'constraint' if p in C else 'old visible value'} {float(want)}"))
            break
    want_w = lpsum(sites_new) - lpsum(sites_old)
    if not close(obs["w"], want_w):
        fails.append((tag, f"update weight {float(obs['w'])} != log p(new) - log p(old) = {float(want_w)}"))
    D = obs.get("discard", {})
    for p in C:
        if p in sites_old and p in sites_new:
            if p not in D or D[p] != O[p]:
                fails.append((tag, f"discard at overwritten address {p} is {D.get(p)}, old visible value was {float(O[p])}"))
                break


def mon_regenerate(g, old, old_args, sel, obs, args, fails, tag):
    sites_new = mon_coherent(g, obs, args, fails, tag)
    if sites_new is None:
        return
    try:
        _, sites_old, conds_old = oracle(g, old["choices"], old_args)
        _, _, conds_new = oracle(g, obs["choices"], args)
    except gfi.Missing:
        return
    N, O = obs["choices"], old["choices"]
    selected = {p for p in sites_new if selmod.ref_selected(sel, gfi.strip_lanes(p))}
    if conds_old != conds_new:
        # C04 quantifies over "argument changes that keep Cond conditions fixed": after a branch switch only
        # coherence (checked above) is claimed
        return
    for p in N:
        if p in sites_new and p in sites_old and p not in selected and N[p] != O.get(p):
            fails.append((tag, f"unselected address {p} changed from {float(O[p])} to {float(N[p])}"))
            break
    if selected:
        cm = gfi.cm_from_leafmap(g, N)
        _, s2 = gfi.ref_run(g, cm, args, fresh=selected)
        for p in selected:
            if p in s2 and not close(s2[p][1], N[p]):
                fails.append((tag, f"selected address {p} = {float(N[p])} is not a fresh draw from its conditional prior ({float(s2[p][1])})"))
                break
    if conds_old == conds_new:
        dsel = sum((sites_new[p][0] for p in selected if p in sites_new), Fr(0)) - sum((sites_old[p][0] for p in selected if p in sites_old), Fr(0))
        want_w = (lpsum(sites_new) - lpsum(sites_old)) - dsel
        if not close(obs["w"], want_w):
            fails.append((tag, f"regenerate weight {float(obs['w'])} != {float(want_w)} (change of joint minus change of selected prior)"))
    D = obs.get("discard", {})
    for p in selected:
        if p in sites_old and (p not in D or D[p] != O[p]):
            fails.append((tag, f"discard lacks old value of resampled address {p}"))
            break


def mon_assess(g, cm_lm, obs, args, fails, tag):
    try:
        ret, sites, _ = oracle(g, cm_lm, args)
    except gfi.Missing:
        return
    if obs.get("logp_shape"):
        fails.append((tag, f"assess density is not a scalar (shape {obs['logp_shape']})"))
    if not close(obs["logp"], lpsum(sites)):
        fails.append((tag, f"assess {float(obs['logp'])} != sum of site log densities {float(lpsum(sites))}"))
    if not seq_close(obs["retval"], gfi.flat(ret)):
        fails.append((tag, "assess retval != program return value on those choices"))


def overwritten_of(op):
    if op[0] == "update":
        return {gfi.strip_lanes(p) for p in gfi.leafmap(op[1])}
    if op[0] == "regenerate":
        return None  # compared via monitor only
    return None


def check_case(ctx, G, g, ops, roundtrip=False, label=""):
    """run one op sequence on implementation + model, apply monitors, classify, record outcome"""
    runner = ImplRunner(G, g)
    obs, fails = [], []
    prev, prev_args = None, None
    for i, op in enumerate(ops):
        o = runner.run(op)
        obs.append(o)
        tag = f"op{i}:{op[0]}"
        if not o["ok"]:
            fails.append((tag, f"{op[0]} raised {o['error']}"))
            continue
        k = op[0]
        if k == "simulate":
            mon_coherent(g, o, op[1], fails, tag)
            # simulate = generate with no constraints: every site is a probe draw
            mon_generate(g, {}, {**o, "w": Fr(0)}, op[1], fails, tag)
        elif k == "assess":
            mon_assess(g, gfi.leafmap(op[1]), o, op[2], fails, tag)
        elif k == "generate":
            mon_generate(g, gfi.leafmap(op[1]), o, op[2], fails, tag)
        elif k == "update" and prev is not None:
            mon_update(g, prev, prev_args, gfi.leafmap(op[1]), o, op[2], fails, tag)
            if roundtrip and o.get("_discard_raw") is not None:
                try:
                    tr_b, w_b, _ = runner.gf.update(runner.tr, o["_discard_raw"], *runner._args(prev_args))
                    back = gfi.leafmap(gfi.canon(g, tr_b.get_choices()))
                    _, sites_old, _ = oracle(g, prev["choices"], prev_args)
                    bad = [p for p in sites_old if p in back and back[p] != prev["choices"][p]]
                    if bad:
                        fails.append((tag, f"update-back with the discard does not restore address {bad[0]}"))
                    if not close(Fr(float(w_b)), -o["w"]):
                        fails.append((tag, f"update-back weight {float(w_b)} != -{float(o['w'])}"))
                except Exception as e:
                    impl.reset_handlers()
                    fails.append((tag, f"update-back with the discard raised {type(e).__name__}: {str(e)[:120]}"))
        elif k == "regenerate" and prev is not None:
            mon_regenerate(g, prev, prev_args, op[1], o, op[2], fails, tag)
        if k != "assess":
            prev, prev_args = o, (op[1] if k == "simulate" else op[2])
    pub = [strip(o) for o in obs]
    ow = [overwritten_of(op) for op in ops]
    open_classes = {k_["class"] for k_ in ctx.known}
    expected_cfg = cfg_str({f for f in FLAGS if FLAG_CLASS[f] in open_classes})   # asis only where a finding is open
    asis = parse_model(common.driver_run([model_line(expected_cfg, g, ops)])[0])
    agrees = all(same(a, b, w) for a, b, w in zip(pub, asis, ow))
    case = {"py": repr((g, ops)), "label": label, **case_json(g, ops), "impl": jsonable(pub)}
    if fails:
        flags = set() if not agrees else None
        if agrees:
            # which asis flags are needed to reproduce the implementation?
            flags = classify(g, ops, pub, ow)
        else:
            flags = classify(g, ops, pub, ow)
        case["monitor_failures"] = [f"{t}: {m}" for t, m in fails]
        if flags:
            classes = sorted(FLAG_CLASS[f] for f in flags)
            known = {k_["class"] for k_ in ctx.known}
            if all(c in known for c in classes):
                for c in classes:
                    ctx.property_failure(c, fails[0][1], case, matches_asis=True)
            else:
                ctx.property_failure("+".join(classes), fails[0][1], case, matches_asis=False)
        elif flags is not None and not flags:
            ctx.correspondence_break("specification oracle vs Lean spec model", fails[0][1], case)
            ctx.property_failure(None, fails[0][1], case)
        else:
            ctx.property_failure(None, fails[0][1], case)
    elif not agrees:
        flags = classify(g, ops, pub, ow)
        if flags is None:
            diff = next((i for i, (a, b, w) in enumerate(zip(pub, asis, ow)) if not same(a, b, w)), None)
            case["model_asis"] = jsonable(asis)
            ctx.correspondence_break(f"Lean GFI model (Gfi.lean, cfg {expected_cfg}) vs implementation",
                                     f"op {diff} ({ops[diff][0] if diff is not None else '?'}) differs between model and implementation", case)
    return fails, agrees


def replay_case(ctx, payload, **kw):
    G = impl.load()
    case = payload.get("case") or {}
    g, ops = eval(case["py"], {"Fraction": Fr})
    fails, agrees = check_case(ctx, G, g, ops, **kw)
    for t, m in fails:
        print(f"REPRODUCED {t}: {m}")
    if not fails:
        print("not reproduced (monitors pass)" + ("" if agrees else "; model and implementation still disagree"))
    return 1 if ctx.issues else 0
