"""Keyword arguments through the GFI (C01-C05 quantify over programs that pass kwargs).

The Lean model has positional arguments only.  The modelling assumption "a keyword argument behaves like the
positional argument it binds" is CHECKED here on the implementation by a metamorphic twin test: every program
family below exists in two variants - `kw` (the value is passed by keyword through the combinator) and `pos`
(the same value inlined as a constant) - and every GFI operation must give identical results on both.
The `pos` variants are ordinary programs of the kind the model-based correspondence covers.

Known findings recognised here (class names of known_findings.jsonl):
  vmap-kwargs-raise      Vmap / modular_vmap accept **kwargs in their signature but raise TypeError when one is given
  kwarg-name-collision   a model keyword named like a GFI method parameter (`s`, `x`, `tr`) collides with it
"""
from __future__ import annotations

import numpy as np

import impl

TOL = 1e-5


def _families(G):
    import jax.numpy as jnp
    from genjax import Cond, Scan, const, gen, normal

    xs = jnp.array([0.25, -0.5, 1.0])
    F = {}

    def leaf(sd_name):
        # a @gen function with a keyword parameter (default 1.0) and its positional twin with the value inlined
        if sd_name == "sd":
            @gen
            def kw(x, sd=1.0):
                z = normal(x, sd) @ "z"
                return normal(z, sd * 0.5) @ "y"
        else:
            @gen
            def kw(x, s=1.0):   # the keyword is called `s`, like the selection parameter of regenerate
                z = normal(x, s) @ "z"
                return normal(z, s * 0.5) @ "y"

        def mk_pos(v):
            @gen
            def pos(x):
                z = normal(x, v) @ "z"
                return normal(z, v * 0.5) @ "y"
            return pos
        return kw, mk_pos

    kw, mk_pos = leaf("sd")

    # --- 1. sub-call with a keyword inside an enclosing @gen
    @gen
    def outer_kw(x):
        a = kw(x, sd=2.0) @ "sub"
        return normal(a, 1.0) @ "o"
    p2 = mk_pos(2.0)

    @gen
    def outer_pos(x):
        a = p2(x) @ "sub"
        return normal(a, 1.0) @ "o"
    F["fn-subcall"] = (outer_kw, outer_pos, [(jnp.float32(0.5),), (jnp.float32(-1.0),)], {"sub": {"z": 0.25}}, ("sub", "z"), None)

    # --- 2. Scan whose step has a keyword, top level is an enclosing @gen passing it by keyword
    @gen
    def step_kw(c, x, sd=1.0):
        y = normal(c + x, sd) @ "y"
        return y * 0.5, y

    def mk_step(v):
        @gen
        def step(c, x):
            y = normal(c + x, v) @ "y"
            return y * 0.5, y
        return step

    @gen
    def scan_kw(x):
        c, ys = Scan(step_kw, length=const(3))(x, xs, sd=2.0) @ "s"
        return normal(c, 1.0) @ "o"
    sp = mk_step(2.0)

    @gen
    def scan_pos(x):
        c, ys = Scan(sp, length=const(3))(x, xs) @ "s"
        return normal(c, 1.0) @ "o"
    F["scan-subcall"] = (scan_kw, scan_pos, [(jnp.float32(0.5),), (jnp.float32(-1.0),)], {"s": {"y": jnp.array([0.5, 0.25, -0.25])}}, ("s", "y"), None)

    # --- 3. Cond whose branches take a keyword
    kwb, mkb = leaf("sd")

    @gen
    def cond_kw(x):
        a = Cond(kw, kwb)(x > 0, x, sd=2.0) @ "c"
        return normal(a, 1.0) @ "o"
    p2b = mkb(2.0)

    @gen
    def cond_pos(x):
        a = Cond(p2, p2b)(x > 0, x) @ "c"
        return normal(a, 1.0) @ "o"
    F["cond-subcall"] = (cond_kw, cond_pos, [(jnp.float32(0.5),), (jnp.float32(-1.0),)], {"c": {"z": 0.25}}, ("c", "z"), None)

    # --- 4. Vmap whose callee takes a keyword (known finding: raises)
    @gen
    def vmap_kw(x):
        a = kw.vmap(in_axes=(0,))(xs + x, sd=2.0) @ "v"
        return normal(jnp.sum(a), 1.0) @ "o"

    @gen
    def vmap_pos(x):
        a = p2.vmap(in_axes=(0,))(xs + x) @ "v"
        return normal(jnp.sum(a), 1.0) @ "o"
    F["vmap-subcall"] = (vmap_kw, vmap_pos, [(jnp.float32(0.5),), (jnp.float32(-1.0),)], {"v": {"z": jnp.array([0.5, 0.25, -0.25])}}, ("v", "z"), "vmap-kwargs-raise")

    # --- 5. keyword named like a GFI method parameter
    kws, mks = leaf("s")

    @gen
    def coll_kw(x):
        a = kws(x, s=2.0) @ "sub"
        return normal(a, 1.0) @ "o"
    F["kwarg-named-s"] = (coll_kw, outer_pos, [(jnp.float32(0.5),), (jnp.float32(-1.0),)], {"sub": {"z": 0.25}}, ("sub", "z"), "kwarg-name-collision")
    return F


def _flat(tree):
    import jax
    return [np.asarray(l, dtype=np.float64) for l in jax.tree_util.tree_leaves(tree)]


def _same(a, b):
    fa, fb = _flat(a), _flat(b)
    return len(fa) == len(fb) and all(x.shape == y.shape and np.allclose(x, y, rtol=TOL, atol=TOL) for x, y in zip(fa, fb))


def _obs(tr):
    return {"choices": tr.get_choices(), "score": tr.get_score(), "retval": tr.get_retval()}


def _ops(G, prop, gf, argsets, constraint, selpath):
    """the operation script of property `prop` on generative function gf; returns a list of observations"""
    import jax.random as jr
    from genjax import sel
    a0, a1 = argsets
    k = jr.key(11)
    out = []
    tr = G.seed(gf.simulate)(k, *a0)
    if prop == "C01":
        out.append(_obs(tr))
        lp, r = gf.assess(tr.get_choices(), *a1)
        out.append({"logp": lp, "retval": r})
    elif prop == "C02":
        t2, w = G.seed(gf.generate)(k, constraint, *a0)
        out.append({**_obs(t2), "w": w})
        # a non-empty constraint that does NOT mention the keyword sub-call's address (only the last site "o")
        t2b, wb = G.seed(gf.generate)(k, {"o": tr.get_choices()["o"] * 0.5 + 0.25}, *a1)
        out.append({**_obs(t2b), "w": wb})
        t3, w3 = G.seed(gf.generate)(k, tr.get_choices(), *a1)
        out.append({**_obs(t3), "w": w3})
    elif prop == "C03":
        t2, w, d = gf.update(tr, constraint, *a1)
        out.append({**_obs(t2), "w": w})
        t3, w3, _ = gf.update(t2, d, *a0)
        out.append({**_obs(t3), "w": w3})
    elif prop == "C04":
        t2, w, d = G.seed(gf.regenerate)(k, tr, sel(selpath), *a1)
        out.append({**_obs(t2), "w": w, "discard": d})
        t3, w3, _ = G.seed(gf.regenerate)(k, t2, sel(), *a0)
        out.append({**_obs(t3), "w": w3})
    elif prop == "C05":
        t2, w, _ = gf.update(tr, constraint, *a1)
        t3, w3, _ = G.seed(gf.regenerate)(k, t2, sel(selpath), *a0)
        t4, w4, _ = gf.update(t3, None, *a1)
        out += [{**_obs(t2), "w": w}, {**_obs(t3), "w": w3}, {**_obs(t4), "w": w4}]
    return out


def run(ctx, G, prop):
    """twin test of every family for property `prop`"""
    for name, (gkw, gpos, argsets, constraint, selpath, known_class) in _families(G).items():
        case = {"kind": "kwargs-twin", "family": name, "property": prop}
        try:
            want = _ops(G, prop, gpos, argsets, constraint, selpath)
        except Exception as e:   # the positional twin must work: it is an ordinary program
            impl.reset_handlers()
            ctx.property_failure(None, f"positional twin of {name} raised {type(e).__name__}: {str(e)[:160]}", case)
            continue
        try:
            got = _ops(G, prop, gkw, argsets, constraint, selpath)
        except TypeError as e:
            impl.reset_handlers()
            msg = str(e)
            is_kw = "keyword argument" in msg or "multiple values for argument" in msg
            ctx.property_failure(known_class if is_kw else None,
                                 f"{name}: passing the argument by keyword raises TypeError ({msg[:120]}) where the positional twin works",
                                 {**case, "error": msg[:200]}, matches_asis=bool(known_class) and is_kw)
            ctx.case(nontrivial_key=("kwargs", name, prop))
            ctx.count(f"kwargs:{name}:raises")
            continue
        except Exception as e:
            impl.reset_handlers()
            ctx.property_failure(None, f"{name}: keyword variant raised {type(e).__name__}: {str(e)[:160]}", case)
            continue
        for i, (a, b) in enumerate(zip(got, want)):
            for key in b:
                if not _same(a[key], b[key]):
                    ctx.property_failure(None, f"{name}: {prop} step {i}: `{key}` differs between the keyword and the positional variant of the same program "
                                         f"({[x.tolist() for x in _flat(a[key])][:3]} vs {[x.tolist() for x in _flat(b[key])][:3]})", {**case, "step": i, "field": key})
                    break
        ctx.case(sample=case if name == "scan-subcall" else None, nontrivial_key=("kwargs", name, prop))
        ctx.count(f"kwargs:{name}:ok")
