"""C10 — SMC particles are properly weighted; the evidence estimate is unbiased."""
import math

import numpy as np

import common
import impl
import sexp

RULE = ("linear-Gaussian and discrete step models, flat and nested (sub-call) address layouts, default and user-supplied proposals, particle counts "
        "{1,2,3,5,8}: hand-composed init / extend / resample / rejuvenate pipelines and rejuvenation_smc; per particle: log weight vs scipy "
        "density of that lane's choices and the observations minus the proposal density; rejuvenation leaves weights / accumulated estimate / "
        "diagnostics untouched; exp(log_marginal_likelihood) averaged over seeded runs vs the exact evidence (CLT band z<5.5); bookkeeping vs the "
        "Lean particle-system model; non-trivial = every pipeline (distinct by layout/proposal/N/key)")


def setup(G, nested):
    import jax.numpy as jnp
    normal = G.normal
    if not nested:
        @G.gen
        def model(prev):
            x = normal(0.8 * prev, 1.0) @ "x"
            y = normal(x, 0.5) @ "y"
            return (x,)

        @G.gen
        def prop0(constraints, prev):
            normal(0.5 * prev + 0.5 * constraints["y"], 0.7) @ "x"

        @G.gen
        def prop_t(constraints, old_choices, prev):
            normal(0.5 * prev + 0.5 * constraints["y"], 0.7) @ "x"
        obs = lambda y: {"y": jnp.float32(y)}
        getx = lambda c: np.asarray(c["x"], dtype=np.float64)
        qmean = lambda prev, y: 0.5 * prev + 0.5 * y
    else:
        @G.gen
        def inner(prev):
            x = normal(0.8 * prev, 1.0) @ "x"
            y = normal(x, 0.5) @ "y"
            return x

        @G.gen
        def model(prev):
            x = inner(prev) @ "step"
            return (x,)

        @G.gen
        def pin(prev, y):
            normal(0.5 * prev + 0.5 * y, 0.7) @ "x"

        @G.gen
        def prop0(constraints, prev):
            pin(prev, constraints["step"]["y"]) @ "step"

        @G.gen
        def prop_t(constraints, old_choices, prev):
            pin(prev, constraints["step"]["y"]) @ "step"
        obs = lambda y: {"step": {"y": jnp.float32(y)}}
        getx = lambda c: np.asarray(c["step"]["x"], dtype=np.float64)
        qmean = lambda prev, y: 0.5 * prev + 0.5 * y
    return model, prop0, prop_t, obs, getx, qmean


def npdf(v, m, s):
    return -0.5 * ((v - m) / s) ** 2 - math.log(s) - 0.5 * math.log(2 * math.pi)


def pipeline(G, ctx, nested, use_prop, N, key_int):
    """init -> extend -> resample -> rejuvenate -> extend, checking every particle's weight"""
    import jax.numpy as jnp
    import jax.random as jr
    from genjax.inference.mcmc import mh
    from genjax.inference.smc import extend, init, rejuvenate, resample
    model, prop0, prop_t, obs, getx, qmean = setup(G, nested)
    ys = [0.6, -0.4, 1.1]
    case = {"kind": "pipeline", "nested": nested, "proposal": use_prop, "N": N, "key": key_int}
    k = jr.split(jr.key(key_int), 6)
    try:
        p0 = G.seed(lambda: init(model, (jnp.float32(0.0),), G.const(N), obs(ys[0]), prop0 if use_prop else None))(k[0])
        x0 = getx(p0.traces.get_choices())
        lw0 = np.asarray(p0.log_weights, dtype=np.float64)
        want0 = npdf(ys[0], x0, 0.5) + (npdf(x0, 0.0, 1.0) - npdf(x0, qmean(0.0, ys[0]), 0.7) if use_prop else 0.0)
        if x0.shape != (N,) or not np.allclose(lw0, want0, rtol=1e-4, atol=1e-4):
            ctx.property_failure(None, f"init: particle log weights {lw0.tolist()} != log p(x,y) - log q(x) = {np.asarray(want0).tolist()}", case)
        yobs = p0.traces.get_choices()
        yv = np.asarray(yobs["step"]["y"] if nested else yobs["y"])
        if not np.allclose(yv, ys[0]):
            ctx.property_failure(None, "init: particles do not hold the observed value", case)
        if abs(float(p0.log_marginal_estimate)) > 0:
            ctx.property_failure(None, "init: accumulated estimate is not 0", case)
        # extend
        args1 = p0.traces.get_retval()
        p1 = G.seed(lambda p: extend(p, model, args1, obs(ys[1]), prop_t if use_prop else None))(k[1], p0)
        x1 = getx(p1.traces.get_choices())
        lw1 = np.asarray(p1.log_weights, dtype=np.float64)
        inc = npdf(ys[1], x1, 0.5) + (npdf(x1, 0.8 * x0, 1.0) - npdf(x1, qmean(x0, ys[1]), 0.7) if use_prop else 0.0)
        if not np.allclose(lw1, lw0 + inc, rtol=1e-4, atol=1e-4):
            ctx.property_failure(None, f"extend: log weights {lw1.tolist()} != previous + incremental weight {(lw0 + inc).tolist()}", case)
        yv1 = p1.traces.get_choices()
        yv1 = np.asarray(yv1["step"]["y"] if nested else yv1["y"])
        if not np.allclose(yv1, ys[1]):
            ctx.property_failure(None, "extend: particles do not hold the new observation (it was re-sampled from the prior)", case)
        lml1 = float(p1.log_marginal_likelihood())
        # resample
        p2 = G.seed(lambda p: resample(p, method="systematic"))(k[2], p1)
        if abs(float(p2.log_marginal_likelihood()) - lml1) > 1e-4 * (1 + abs(lml1)):
            ctx.property_failure(None, "resample changed log_marginal_likelihood", case)
        particles_coherent(G, ctx, model, p2.traces, N, case, "after extend + resample")
        # rejuvenate: weights, accumulated estimate and diagnostics untouched
        sel = G.sel(("step", "x")) if nested else G.sel("x")
        p3 = G.seed(lambda p: rejuvenate(p, lambda t: mh(t, sel)))(k[3], p2)
        if not np.array_equal(np.asarray(p3.log_weights), np.asarray(p2.log_weights)):
            ctx.property_failure(None, "rejuvenate changed the particle weights", case)
        if float(p3.log_marginal_estimate) != float(p2.log_marginal_estimate):
            ctx.property_failure(None, f"rejuvenate changed the accumulated estimate: {float(p2.log_marginal_estimate)} -> {float(p3.log_marginal_estimate)}", case)
        if not np.array_equal(np.asarray(p3.diagnostic_weights), np.asarray(p2.diagnostic_weights)):
            ctx.property_failure(None, "rejuvenate changed the diagnostic weights", case)
        # second extend after resample+rejuvenate
        x2 = getx(p3.traces.get_choices())
        args2 = p3.traces.get_retval()
        p4 = G.seed(lambda p: extend(p, model, args2, obs(ys[2]), prop_t if use_prop else None))(k[4], p3)
        x3 = getx(p4.traces.get_choices())
        inc2 = npdf(ys[2], x3, 0.5) + (npdf(x3, 0.8 * x2, 1.0) - npdf(x3, qmean(x2, ys[2]), 0.7) if use_prop else 0.0)
        lw4 = np.asarray(p4.log_weights, dtype=np.float64)
        if not np.allclose(lw4, np.asarray(p3.log_weights, dtype=np.float64) + inc2, rtol=1e-4, atol=1e-4):
            ctx.property_failure(None, "extend after resample/rejuvenate: log weights != previous + incremental weight", case)
        # Lean particle-system model: lml = acc * mean(w)
        ws = [float(math.exp(v)) for v in lw4]
        r = sexp.loads(common.driver_run([sexp.dumps(["smc-lml", [fq(w) for w in ws], fq(math.exp(float(p4.log_marginal_estimate)))])])[0])
        if abs(math.log(float(frac(r[1]))) - float(p4.log_marginal_likelihood())) > 1e-3 * (1 + abs(float(p4.log_marginal_likelihood()))):
            ctx.correspondence_break("Smc.Sys.lml vs log_marginal_likelihood()", f"model {r[1]} impl {float(p4.log_marginal_likelihood())}", case)
    except Exception as ex:
        impl.reset_handlers()
        ctx.property_failure(None, f"pipeline raised {type(ex).__name__}: {str(ex)[:200]}", case)
    ctx.case(sample=case if ctx.coverage["evaluations"] % 5 == 0 else None, nontrivial_key=(nested, use_prop, N, key_int))
    ctx.count(f"pipeline:{'nested' if nested else 'flat'}:{'proposal' if use_prop else 'default'}")


def particles_coherent(G, ctx, model, traces, N, case, where):
    """every particle is a coherent trace under the arguments STORED with it: log p(choices_j; args_j) = -score_j
    (resampling must gather the per-particle arguments together with the choices)"""
    import jax
    args, kwargs = traces.get_args()
    scores = np.asarray(jax.vmap(lambda t: t.get_score())(traces), dtype=np.float64)
    ch = traces.get_choices()
    for j in range(N):
        cj = jax.tree_util.tree_map(lambda a: a[j], ch)
        aj = jax.tree_util.tree_map(lambda a: a[j] if (np.ndim(a) >= 1 and np.shape(a)[0] == N) else a, args)
        lp, _ = model.assess(cj, *aj, **kwargs)
        if abs(float(lp) + scores[j]) > 1e-3 * (1 + abs(scores[j])):
            ctx.property_failure(None, f"{where}: particle {j} is not coherent under its stored arguments: log p(choices; args) = {float(lp):.4f}, -score = {-scores[j]:.4f} "
                                 "(the particle's arguments were not copied from its ancestor)", {**case, "particle": j})
            return False
    return True


def partial_proposal(G, ctx, N, key_int):
    """init with a custom proposal that covers only SOME of the latents: the rest is filled by the model's own proposal,
    whose density must be divided out too: w = p(a, b, y) / (q(a) p(b | a))"""
    import jax.numpy as jnp
    import jax.random as jr
    from genjax.inference.smc import init
    normal = G.normal

    @G.gen
    def model():
        a = normal(0.0, 1.0) @ "a"
        b = normal(a, 1.0) @ "b"
        y = normal(b, 0.5) @ "y"
        return (b,)

    @G.gen
    def prop_a(constraints):
        normal(0.3, 0.9) @ "a"

    case = {"kind": "partial-proposal", "N": N, "key": key_int}
    try:
        p0 = G.seed(lambda: init(model, (), G.const(N), {"y": jnp.float32(0.7)}, prop_a))(jr.key(key_int))
        ch = p0.traces.get_choices()
        a, b = np.asarray(ch["a"], dtype=np.float64), np.asarray(ch["b"], dtype=np.float64)
        lw = np.asarray(p0.log_weights, dtype=np.float64)
        want = npdf(a, 0.0, 1.0) + npdf(0.7, b, 0.5) - npdf(a, 0.3, 0.9)
        if not np.allclose(lw, want, rtol=1e-4, atol=1e-4):
            ctx.property_failure(None, f"init with a proposal for only part of the latents: log weights {lw.tolist()} != log p(a) + log p(y|b) - log q(a) = {want.tolist()} "
                                 "(the model's own proposal for the remaining latent must be divided out)", case)
    except Exception as ex:
        impl.reset_handlers()
        ctx.property_failure(None, f"init with a partial proposal raised {type(ex).__name__}: {str(ex)[:200]}", case)
    ctx.case(sample=case, nontrivial_key=("partial-proposal", N, key_int))
    ctx.count("partial-proposal")


def fq(x):
    from fractions import Fraction
    return Fraction(float(x)).limit_denominator(10 ** 12)


def frac(t):
    from fractions import Fraction
    return Fraction(t)


def unbiased(G, ctx, n_runs, N, with_kernel, use_prop):
    """mean of exp(log_marginal_likelihood) of rejuvenation_smc over seeded runs vs exact evidence (Kalman)"""
    import jax
    import jax.numpy as jnp
    import jax.random as jr
    from genjax.inference.mcmc import mh
    from genjax.inference.smc import rejuvenation_smc
    model, prop0, prop_t, obs, getx, qmean = setup(G, False)
    ys = np.array([0.6, -0.4, 1.1, 0.2], dtype=np.float32)
    # exact evidence: scalar Kalman with x_0 ~ N(0,1) (prev = 0), x_t = 0.8 x_{t-1} + N(0,1), y = x + N(0,.25)
    m, P, lz = 0.0, 1.0, 0.0
    for t, y in enumerate(ys):
        if t > 0:
            m, P = 0.8 * m, 0.64 * P + 1.0
        S = P + 0.25
        lz += npdf(float(y), m, math.sqrt(S))
        k = P / S
        m, P = m + k * (float(y) - m), P - k * P
    kern = G.const(lambda t: mh(t, G.sel("x"))) if with_kernel else None

    def run(key):
        p = G.seed(lambda: rejuvenation_smc(model, prop_t if use_prop else None, kern, {"y": jnp.asarray(ys)}, (jnp.float32(0.0),),
                                            G.const(N), G.const(False), G.const(1)))(key)
        return p.log_marginal_likelihood()

    case = {"kind": "unbiased", "N": N, "kernel": with_kernel, "proposal": use_prop, "runs": n_runs}
    try:
        lmls = np.asarray(jax.jit(jax.vmap(run))(jr.split(jr.key(ctx.seed + 77), n_runs)), dtype=np.float64)
    except Exception as ex:
        impl.reset_handlers()
        ctx.property_failure(None, f"rejuvenation_smc raised {type(ex).__name__}: {str(ex)[:200]}", case)
        return
    ratio = np.exp(lmls - lz)
    mean, se = ratio.mean(), ratio.std(ddof=1) / math.sqrt(n_runs)
    case.update({"mean_Zhat_over_Z": float(mean), "se": float(se)})
    if not np.isfinite(mean) or abs(mean - 1.0) > 5.5 * se + 1e-3:
        ctx.property_failure(None, f"E[exp(log_marginal_likelihood)]/Z = {mean:.4f} +- {se:.4f} over {n_runs} seeded runs (N={N}, kernel={with_kernel}, proposal={use_prop})", case)
    ctx.case(sample=case, nontrivial_key=("unbiased", N, with_kernel, use_prop))
    ctx.count("unbiased")


def unbiased_systematic(G, ctx, n_runs, N):
    """hand-composed init -> resample(systematic) -> extend: the evidence estimate stays unbiased through SYSTEMATIC resampling
    (offspring counts must be unbiased for the later extend to be properly weighted); discrete-mixture-free Gaussian model, exact Kalman evidence"""
    import jax
    import jax.numpy as jnp
    import jax.random as jr
    from genjax.inference.smc import extend, init, resample
    model, prop0, prop_t, obs, getx, qmean = setup(G, False)
    ys = [1.2, -0.7]                      # moderately uneven weights after init, moderate variance of the estimate
    m, P, lz = 0.0, 1.0, 0.0
    for t, y in enumerate(ys):
        if t > 0:
            m, P = 0.8 * m, 0.64 * P + 1.0
        S = P + 0.25
        lz += npdf(float(y), m, math.sqrt(S))
        k = P / S
        m, P = m + k * (float(y) - m), P - k * P

    def run(key):
        def pipe():
            p0 = init(model, (jnp.float32(0.0),), G.const(N), obs(ys[0]))
            p1 = resample(p0, method="systematic")
            p2 = extend(p1, model, p1.traces.get_retval(), obs(ys[1]))
            return p2.log_marginal_likelihood()
        return G.seed(pipe)(key)

    case = {"kind": "unbiased-systematic", "N": N, "runs": n_runs}
    try:
        lmls = np.asarray(jax.jit(jax.vmap(run))(jr.split(jr.key(ctx.seed + 78), n_runs)), dtype=np.float64)
    except Exception as ex:
        impl.reset_handlers()
        ctx.property_failure(None, f"init -> resample(systematic) -> extend raised {type(ex).__name__}: {str(ex)[:200]}", case)
        return
    ratio = np.exp(lmls - lz)
    mean, se = ratio.mean(), ratio.std(ddof=1) / math.sqrt(n_runs)
    case.update({"mean_Zhat_over_Z": float(mean), "se": float(se)})
    if not np.isfinite(mean) or abs(mean - 1.0) > 5.5 * se + 1e-3:
        ctx.property_failure(None, f"init -> resample(systematic) -> extend: E[exp(log_marginal_likelihood)]/Z = {mean:.4f} +- {se:.4f} over {n_runs} seeded runs (N={N})", case)
    ctx.case(sample=case, nontrivial_key=("unbiased-systematic", N))
    ctx.count("unbiased-systematic")


def model_self_check(ctx):
    """exact expectation in the Lean model on a tiny discrete system = exact evidence"""
    r = sexp.loads(common.driver_run([sexp.dumps(["smc-exact", 2])])[0])
    if r[0] != "ok" or frac(r[1]) != frac(r[2]):
        ctx.correspondence_break("Smc.runSteps exact expectation vs evidence (driver self-check)", str(r), {"kind": "model-self-check"})
    ctx.case(nontrivial_key="model-self-check")


def shard(ctx, jobs):
    G = impl.load()
    for j in jobs:
        if j[0] == "pipeline":
            pipeline(G, ctx, *j[1:])
        elif j[0] == "partial":
            partial_proposal(G, ctx, *j[1:])
        elif j[0] == "systematic":
            unbiased_systematic(G, ctx, *j[1:])
        else:
            unbiased(G, ctx, *j[1:])


def estimate_test_functions(G, ctx):
    """`estimate` is the normalised-weight average of ANY test function of the choices: scalar, vector, matrix (outer products for second
    moments - a repaired defect: the weights were broadcast against the wrong axis, an error unless the particle count equals the
    first value dimension, then silently wrong), pytree-valued, and bool / int valued (a raw discrete choice, a comparison, a count:
    the weights must not be cast to the values' dtype).  Compared with the float64 weighted mean of the per-particle values, for
    particle counts 1, 3 (= the first dimension of the matrix), 4, 7; after init and after resample."""
    import jax
    import jax.numpy as jnp
    import jax.random as jr
    from fractions import Fraction as Fr
    from genjax.inference.smc import resample
    from props import c12
    fns = {
        "scalar": lambda c: c["x"],
        "vector": lambda c: c["v"],
        "matrix(3,2)": lambda c: jnp.outer(jnp.array([1.0, 2.0, 3.0]) * c["x"], c["v"]),
        "outer(v,v)": lambda c: jnp.outer(c["v"], c["v"]),
        "rank3": lambda c: jnp.ones((2, 3, 2)) * c["y"],
        "pytree": lambda c: {"a": c["x"], "b": (c["v"], c["y"] ** 2)},
        "bool": lambda c: c["x"] > 0.0,
        "int": lambda c: jnp.floor(c["y"]).astype(jnp.int32) + 2,
        "int-vector": lambda c: (c["v"] > 0.0).astype(jnp.int32),
    }
    for N in (1, 2, 3, 4, 7):
        ws = [Fr(k) for k in (1, 2, 5, 3, 1, 8, 2)][:N]
        p0 = c12.make_particles(G, N, ws, jr.key(ctx.seed + 5))
        for stage, p in (("init", p0), ("resampled", G.seed(lambda pp: resample(pp, method="systematic"))(jr.key(9), p0))):
            w = np.exp(np.asarray(p.log_weights, dtype=np.float64) - np.max(np.asarray(p.log_weights, dtype=np.float64)))
            w = w / w.sum()
            ch = p.traces.get_choices()
            for name, fn in fns.items():
                case = {"kind": "estimate-test-function", "N": N, "stage": stage, "fn": name}
                vals = jax.vmap(fn)(ch)
                want = jax.tree_util.tree_map(lambda v: np.tensordot(w, np.asarray(v, dtype=np.float64), axes=(0, 0)), vals)
                try:
                    got = p.estimate(fn)
                    gl, wl = jax.tree_util.tree_leaves(got), jax.tree_util.tree_leaves(want)
                    ok = len(gl) == len(wl) and all(np.shape(a) == np.shape(b) and np.allclose(np.asarray(a, dtype=np.float64), b, rtol=2e-5, atol=2e-5) for a, b in zip(gl, wl))
                    if not ok:
                        ctx.property_failure(None, f"estimate of a {name} test function over {N} particles ({stage}): {[np.asarray(a).tolist() for a in gl][:2]} != the weighted mean "
                                             f"{[np.asarray(b).tolist() for b in wl][:2]}", case)
                except Exception as ex:
                    impl.reset_handlers()
                    ctx.property_failure(None, f"estimate of a {name} test function over {N} particles ({stage}) raised {type(ex).__name__}: {str(ex)[:120]}", case)
                ctx.case(sample=case if (N, stage, name) == (3, "init", "matrix(3,2)") else None, nontrivial_key=("estimate-fn", N, stage, name))
                ctx.count("estimate-test-function")


def run(ctx, audit):
    jobs = []
    for nested in (False, True):
        for use_prop in (False, True):
            for N in ((1, 2, 3, 5, 8) if ctx.thorough else (1, 3, 5)):
                jobs.append(("pipeline", nested, use_prop, N, ctx.seed * 10 + N))
    jobs += [("partial", 4, ctx.seed * 10 + 1), ("partial", 1, ctx.seed * 10 + 2)]
    jobs += [("systematic", 120000 if ctx.thorough else 60000, 4), ("systematic", 60000 if ctx.thorough else 30000, 3)]
    runs = 6000 if ctx.thorough else 1500
    jobs += [("unbiased", runs, 4, True, False), ("unbiased", runs, 3, False, True), ("unbiased", runs, 1, False, False)]
    if ctx.thorough:
        jobs += [("unbiased", runs, 6, True, True), ("unbiased", runs, 2, True, False)]
    n = min(12, len(jobs))
    common.run_sharded(ctx, "props.c10", "shard", [(jobs[i::n],) for i in range(n)])
    model_self_check(ctx)
    from props import c12
    c12.all_impossible(impl.load(), ctx)      # a dead collection keeps evidence 0 through resample
    estimate_test_functions(impl.load(), ctx)
    return {"rule": RULE}


def replay(ctx, payload):
    G = impl.load()
    c = payload.get("case") or {}
    if c.get("kind") == "pipeline":
        pipeline(G, ctx, c["nested"], c["proposal"], c["N"], c["key"])
    elif c.get("kind") == "unbiased-systematic":
        unbiased_systematic(G, ctx, c["runs"], c["N"])
    elif c.get("kind") == "partial-proposal":
        partial_proposal(G, ctx, c["N"], c["key"])
    elif c.get("kind") == "unbiased":
        unbiased(G, ctx, c["runs"], c["N"], c["kernel"], c["proposal"])
    for i in ctx.issues:
        print("REPRODUCED:", i["what"])
    if not ctx.issues:
        print("not reproduced")
    return 1 if ctx.issues else 0
