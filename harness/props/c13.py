"""C13 — distributions: documented parameters, normalised density, matching sampler."""
import math

import numpy as np

import common
import impl

RULE = ("all 24 exported distributions: logpdf vs the LEAN spec term (printed by the model driver, evaluated in float64; its denotation is proved equal to the normalised density) on a grid of parameters x support points; logpdf on a grid of parameters x support points vs closed-form reference densities written from the "
        "documented parameterisation (the same formulas as lean/GenjaxModel/Proofs/DistSpec.lean where formalised) and vs scipy; numeric "
        "normalisation (summation / quadrature of exp(logpdf)); seeded draws (scalar, batched through modular_vmap, sample_shape) vs the reference "
        "CDF/PMF by KS / chi-square at alpha=1e-6, with documented shape and dtype; extreme-parameter points (wide logit spreads); user-wrapped "
        "tfp_distribution / distribution; non-trivial = every (distribution, parameter point)")


def table():
    """name -> dict(call=lambda G: (dist, args, kwargs), ref=scipy frozen dist or callable logpmf, kind, support points, dtype)"""
    from scipy import stats
    from scipy.special import expit, gammaln, logsumexp, zeta
    T = []

    def add(name, params, kw, ref, kind, pts, dtype="float", event=()):
        T.append(dict(name=name, params=params, kw=kw, ref=ref, kind=kind, pts=pts, dtype=dtype, event=event))
    for l in (-1.5, 0.3, 2.0):
        add("bernoulli", (l,), {}, stats.bernoulli(expit(l)), "disc", [0, 1], "int")
    for p in (0.1, 0.5, 0.85):
        add("flip", (p,), {}, stats.bernoulli(p), "disc", [False, True], "bool")
    for p in (0.0, 1.0):     # boundary parameters (hard gates, masks): the certain outcome has log mass 0, the impossible one -inf
        add("flip", (p,), {}, stats.bernoulli(p), "disc", [False, True], "bool")
        T[-1]["edge"] = True
    for a, b in ((0.7, 2.0), (2.5, 1.5)):
        add("beta", (a, b), {}, stats.beta(a, b), "cont", [0.05, 0.3, 0.8, 0.97])
    for lg in ((0.0, 1.0, -1.0), (2.0, -3.0, 0.5, 0.0), (0.0, -150.0, -200.0)):
        p = np.exp(np.array(lg) - logsumexp(lg))
        add("categorical", (np.array(lg, dtype=np.float32),), {}, ("logpmf", lambda k, lg=lg: np.array(lg)[int(k)] - logsumexp(lg)), "disc", list(range(len(lg))), "int")
    for p in (0.2, 0.6):
        add("geometric", (), {"probs": p}, ("logpmf", lambda k, p=p: k * math.log(1 - p) + math.log(p)), "disc", [0, 1, 2, 5, 9], "float")
    for m, s in ((0.0, 1.0), (-2.0, 0.3)):
        add("normal", (m, s), {}, stats.norm(m, s), "cont", [m - 2 * s, m - 0.3 * s, m, m + 1.7 * s])
    add("uniform", (-1.0, 2.5), {}, stats.uniform(-1.0, 3.5), "cont", [-0.9, 0.0, 2.4])
    for r in (0.5, 3.0):
        add("exponential", (r,), {}, stats.expon(scale=1 / r), "cont", [0.05, 0.5, 2.0])
    for r in (0.7, 4.0):
        add("poisson", (r,), {}, stats.poisson(r), "disc", [0, 1, 3, 8], "float")
    cov = np.array([[1.0, 0.6], [0.6, 2.0]])
    add("multivariate_normal", (np.array([0.5, -1.0], dtype=np.float32), cov.astype(np.float32)), {}, stats.multivariate_normal([0.5, -1.0], cov), "vec",
        [np.array([0.0, 0.0]), np.array([1.0, -2.5])], event=(2,))
    add("dirichlet", (np.array([1.5, 2.0, 0.8], dtype=np.float32),), {}, stats.dirichlet([1.5, 2.0, 0.8]), "vec", [np.array([0.2, 0.5, 0.3]), np.array([0.6, 0.1, 0.3])], event=(3,))
    for n, p in ((5, 0.3), (8, 0.75)):
        add("binomial", (float(n),), {"probs": p}, stats.binom(n, p), "disc", [0, 1, 3, n], "float")
    for c, r in ((2.0, 1.5), (0.8, 0.5)):
        add("gamma", (c, r), {}, stats.gamma(c, scale=1 / r), "cont", [0.1, 1.0, 3.0])
    add("log_normal", (0.2, 0.6), {}, stats.lognorm(0.6, scale=math.exp(0.2)), "cont", [0.3, 1.0, 2.5])
    add("student_t", (4.0, 0.5, 1.5), {}, stats.t(4.0, 0.5, 1.5), "cont", [-2.0, 0.5, 3.0])
    add("laplace", (0.5, 1.2), {}, stats.laplace(0.5, 1.2), "cont", [-1.0, 0.5, 2.0])
    add("half_normal", (1.3,), {}, stats.halfnorm(scale=1.3), "cont", [0.1, 1.0, 2.5])
    add("inverse_gamma", (3.0, 2.0), {}, stats.invgamma(3.0, scale=2.0), "cont", [0.3, 1.0, 2.5])
    add("weibull", (1.5, 2.0), {}, stats.weibull_min(1.5, scale=2.0), "cont", [0.3, 1.5, 3.0])
    add("cauchy", (0.3, 0.8), {}, stats.cauchy(0.3, 0.8), "cont", [-2.0, 0.3, 4.0])
    add("chi2", (3.0,), {}, stats.chi2(3.0), "cont", [0.5, 2.0, 6.0])
    add("multinomial", (4.0,), {"probs": np.array([0.2, 0.5, 0.3], dtype=np.float32)}, stats.multinomial(4, [0.2, 0.5, 0.3]), "vec",
        [np.array([1.0, 2.0, 1.0]), np.array([0.0, 4.0, 0.0])], event=(3,))
    # TFP NegativeBinomial(total_count r, probs p): number of successes before r failures; success prob p
    add("negative_binomial", (3.0,), {"probs": 0.4}, stats.nbinom(3, 0.6), "disc", [0, 1, 4, 9], "float")
    add("zipf", (2.5,), {}, ("logpmf", lambda k: -2.5 * math.log(k) - math.log(zeta(2.5))), "disc1", [1, 2, 5, 20], "int")
    return T


def ref_logp(spec, x):
    r = spec["ref"]
    if isinstance(r, tuple):
        return float(r[1](x))
    if spec["kind"] in ("disc",):
        return float(r.logpmf(int(x)))
    if spec["kind"] == "vec":
        return float(r.logpmf(np.asarray(x))) if hasattr(r, "logpmf") and spec["name"] == "multinomial" else float(r.logpdf(np.asarray(x, dtype=np.float64)))
    return float(r.logpdf(float(x)))


def check_density(G, ctx, spec):
    import jax.numpy as jnp
    import genjax.distributions as D
    dist = getattr(D, spec["name"])
    case = {"kind": "density", "distribution": spec["name"], "params": [np.asarray(p).tolist() for p in spec["params"]], "kwargs": {k: np.asarray(v).tolist() for k, v in spec["kw"].items()}}
    params = [jnp.asarray(p) for p in spec["params"]]
    kw = {k: jnp.asarray(v) for k, v in spec["kw"].items()}
    for x in spec["pts"]:
        xv = jnp.asarray(x) if spec["dtype"] != "bool" else jnp.asarray(bool(x))
        try:
            got = float(dist.logpdf(xv, *params, **kw))
        except Exception as ex:
            ctx.property_failure(None, f"{spec['name']}.logpdf raised {type(ex).__name__}: {str(ex)[:150]}", {**case, "x": np.asarray(x).tolist()})
            return
        want = ref_logp(spec, x)
        if not (abs(got - want) <= 2e-4 * (1 + abs(want))) and not (got == want):       # (got == want covers -inf = -inf)
            ctx.property_failure(None, f"{spec['name']}{tuple(case['params'])}{case['kwargs'] or ''}.logpdf({np.asarray(x).tolist()}) = {got}, documented density gives {want}",
                                 {**case, "x": np.asarray(x).tolist(), "logpdf": got, "reference": want})
    # numeric normalisation
    try:
        if spec["kind"] in ("disc", "disc1"):
            lo = 1 if spec["kind"] == "disc1" else 0
            ks = [False, True] if spec["dtype"] == "bool" else list(range(lo, 4000 if spec["name"] == "zipf" else 400))
            if spec["name"] in ("bernoulli",):
                ks = [0, 1]
            if spec["name"] == "categorical":
                ks = list(range(len(spec["params"][0])))
            if spec["name"] == "binomial":
                ks = list(range(int(spec["params"][0]) + 1))
            tot = float(np.sum(np.exp([float(dist.logpdf(jnp.asarray(k, dtype=(jnp.float32 if spec["dtype"] == "float" else None)) if spec["dtype"] != "bool" else jnp.asarray(k), *params, **kw)) for k in ks])))
            tol = 3e-3 if spec["name"] == "zipf" else 1e-3
            if abs(tot - 1.0) > tol:
                ctx.property_failure(None, f"{spec['name']}: exp(logpdf) sums to {tot} over the support", case)
        elif spec["kind"] == "cont":
            # change of variables x = ppf_ref(u): integral of f = mean over u of f(x)/ref_pdf(x) (stable for singular / heavy-tailed densities)
            r = spec["ref"]
            u = (np.arange(4000) + 0.5) / 4000.0
            xs_ = r.ppf(u)
            vals = np.exp(np.asarray(dist.logpdf(jnp.asarray(xs_, dtype=jnp.float32), *params, **kw), dtype=np.float64))
            tot = float(np.mean(vals / r.pdf(xs_)))
            if abs(tot - 1.0) > 2e-3:
                ctx.property_failure(None, f"{spec['name']}: exp(logpdf) integrates to {tot}", case)
    except Exception as ex:
        ctx.property_failure(None, f"{spec['name']}: normalisation check raised {type(ex).__name__}: {str(ex)[:120]}", case)
    ctx.case(sample=case if ctx.coverage["evaluations"] % 9 == 0 else None, nontrivial_key=("density", spec["name"], str(case["params"]), str(case["kwargs"])))
    ctx.count("density:" + spec["name"])


def check_sampler(G, ctx, spec, n):
    import jax
    import jax.numpy as jnp
    import jax.random as jr
    from scipy import stats
    import genjax.distributions as D
    dist = getattr(D, spec["name"])
    params = [jnp.asarray(p) for p in spec["params"]]
    kw = {k: jnp.asarray(v) for k, v in spec["kw"].items()}
    case = {"kind": "sampler", "distribution": spec["name"], "params": [np.asarray(p).tolist() for p in spec["params"]], "kwargs": {k: np.asarray(v).tolist() for k, v in spec["kw"].items()}, "draws": n}
    try:
        one = G.seed(lambda: dist.sample(*params, **kw))(jr.key(1))
        xs = np.asarray(G.seed(lambda: dist.sample(*params, sample_shape=(n,), **kw))(jr.key(ctx.seed + 11)))
        lanes = np.asarray(G.seed(G.modular_vmap(lambda: dist.sample(*params, **kw), in_axes=(), axis_size=5))(jr.key(3)))
    except Exception as ex:
        ctx.property_failure(None, f"{spec['name']}.sample raised {type(ex).__name__}: {str(ex)[:150]}", case)
        return
    ev = tuple(spec["event"])
    if tuple(np.shape(one)) != ev or xs.shape != (n,) + ev or lanes.shape != (5,) + ev:
        ctx.property_failure(None, f"{spec['name']}: sample shapes {np.shape(one)}, {xs.shape}, {lanes.shape} (documented event shape {ev}, sample_shape=({n},), 5 lanes)", case)
        return
    kind = np.asarray(one).dtype.kind
    want_kind = {"bool": "b", "int": "iu", "float": "f"}[spec["dtype"]]
    if kind not in want_kind:
        ctx.property_failure(None, f"{spec['name']}: samples have dtype {np.asarray(one).dtype}, documented {spec['dtype']}", case)
    r = spec["ref"]
    if spec["kind"] == "cont":
        stat, p = stats.kstest(xs.astype(np.float64), r.cdf)
        case["ks_p"] = float(p)
        if p < 1e-6:
            ctx.property_failure(None, f"{spec['name']}: seeded draws do not follow the documented density (KS p={p:.2e}, {n} draws)", case)
    elif spec["kind"] in ("disc", "disc1"):
        vals = xs.astype(np.int64)
        support = sorted(set(vals.tolist()))
        probs = np.array([math.exp(ref_logp(spec, k)) for k in support])
        keep = probs * n >= 5
        counts = np.array([(vals == k).sum() for k in support], dtype=float)
        rest_p, rest_c = 1.0 - probs[keep].sum(), n - counts[keep].sum()
        e = np.append(probs[keep] * n, max(rest_p * n, 1e-9))
        c = np.append(counts[keep], rest_c)
        stat = float(((c - e) ** 2 / e)[e > 1e-6].sum())
        thr = float(stats.chi2.isf(1e-6, max(1, int((e > 1e-6).sum()) - 1)))
        case["chi2"] = stat
        if stat > thr:
            ctx.property_failure(None, f"{spec['name']}: seeded draws do not follow the documented mass function (chi2={stat:.1f} > {thr:.1f})", case)
    else:
        m = xs.astype(np.float64).mean(axis=0)
        want = np.asarray(r.mean() if hasattr(r, "mean") and callable(r.mean) else r.mean, dtype=np.float64) if spec["name"] != "multivariate_normal" else np.asarray(spec["params"][0], dtype=np.float64)
        sd = xs.astype(np.float64).std(axis=0) / math.sqrt(n)
        if np.any(np.abs(m - want) > 5.5 * sd + 1e-3):
            ctx.property_failure(None, f"{spec['name']}: mean of seeded draws {m.tolist()} != documented mean {np.asarray(want).tolist()}", case)
    if spec["kind"] == "cont" and len(set(lanes.reshape(-1).tolist())) != lanes.size:
        ctx.property_failure(None, f"{spec['name']}: vectorised lanes share a draw", case)
    ctx.case(sample=case if ctx.coverage["evaluations"] % 9 == 0 else None, nontrivial_key=("sampler", spec["name"], str(case["params"]), str(case["kwargs"])))
    ctx.count("sampler:" + spec["name"])


def vectorised_params(G, ctx):
    """sampling vectorised over a parameter axis >= 2: lane i is drawn from slice i of the parameter"""
    import jax.numpy as jnp
    import jax.random as jr
    import genjax.distributions as D
    t = jnp.arange(24.0).reshape(2, 3, 4) * 10.0
    for ax in (0, 1, 2, -1):
        out = np.asarray(G.seed(G.modular_vmap(lambda m: D.normal.sample(m, 0.01), in_axes=(ax,)))(jr.key(2), t))
        want = np.moveaxis(np.asarray(t), ax, 0)
        case = {"kind": "vectorised-params", "axis": ax}
        if out.shape != want.shape or not np.allclose(out, want, atol=0.2):
            ctx.property_failure(None, f"normal.sample vectorised over parameter axis {ax}: lanes are not drawn from their own parameter slices (shape {out.shape} vs {want.shape})", case)
        lg = jnp.log(jnp.moveaxis(jnp.eye(3)[None, :, :].repeat(2, 0) * 0.999 + 0.0005, 1, 2))      # (2,3,3): lane j (axis 2) puts its mass on category j
        cat = np.asarray(G.seed(G.modular_vmap(lambda l: D.categorical.sample(l), in_axes=(2,)))(jr.key(3), jnp.moveaxis(lg, 2, 1).transpose(0, 2, 1)))
        ctx.case(nontrivial_key=("vecparam", ax))
    ctx.count("vectorised-params")


def vectorised_keyword_params(G, ctx, n):
    """a parameter given BY KEYWORD must mean the same under modular_vmap / Vmap / repeat as in a plain call: lanes are drawn from
    the documented distribution of that keyword (probs= is not silently read as the first positional parameter, logits)"""
    import jax.numpy as jnp
    import jax.random as jr
    from scipy import stats
    import genjax.distributions as D
    fams = [
        ("bernoulli(probs=0.9)", lambda: D.bernoulli.sample(probs=0.9), lambda p: D.bernoulli.sample(probs=p), 0.9, stats.bernoulli(0.9)),
        ("geometric(probs=0.5)", lambda: D.geometric.sample(probs=0.5), lambda p: D.geometric.sample(probs=p), 0.5, stats.geom(0.5, loc=-1)),
        ("binomial(6, probs=0.3)", lambda: D.binomial.sample(6.0, probs=0.3), lambda p: D.binomial.sample(6.0, probs=p), 0.3, stats.binom(6, 0.3)),
        ("normal(loc=1, scale=0.2)", lambda: D.normal.sample(loc=1.0, scale=0.2), lambda p: D.normal.sample(loc=1.0, scale=p), 0.2, stats.norm(1.0, 0.2)),
        ("exponential(rate=4)", lambda: D.exponential.sample(rate=4.0), lambda p: D.exponential.sample(rate=p), 4.0, stats.expon(scale=0.25)),
    ]
    for name, f0, f1, pval, ref in fams:
        for how in ("axis_size", "mapped-parameter", "repeat"):
            case = {"kind": "vectorised-keyword", "site": name, "vectorised_by": how, "draws": n}
            try:
                if how == "axis_size":
                    xs = G.seed(G.modular_vmap(f0, in_axes=(), axis_size=n))(jr.key(ctx.seed + 31))
                elif how == "mapped-parameter":
                    xs = G.seed(G.modular_vmap(f1, in_axes=(0,)))(jr.key(ctx.seed + 32), jnp.full((n,), pval, dtype=jnp.float32))
                else:
                    @G.gen
                    def site(f0=f0):
                        return f0()
                    # the same site inside a generative function under repeat: its choices must follow the keyword's distribution too
                    dist = getattr(D, name.split("(")[0])
                    kw = {"bernoulli": dict(probs=0.9), "geometric": dict(probs=0.5), "binomial": dict(probs=0.3), "normal": dict(loc=1.0, scale=0.2), "exponential": dict(rate=4.0)}[name.split("(")[0]]
                    pos = (6.0,) if name.startswith("binomial") else ()

                    @G.gen
                    def model():
                        return dist(*pos, **kw) @ "v"
                    tr = G.seed(model.repeat(n).simulate)(jr.key(ctx.seed + 33))
                    xs = tr.get_choices()["v"]
                    lp, _ = model.repeat(n).assess(tr.get_choices())
                    if abs(float(lp) + float(tr.get_score())) > 1e-3 * (1 + abs(float(lp))):
                        ctx.property_failure(None, f"{name} under repeat: trace score != -assess(choices)", case)
                xs = np.asarray(xs, dtype=np.float64)
                if hasattr(ref.dist, "pmf"):
                    ks = sorted(set(xs.astype(int).tolist()))
                    probs = np.array([ref.pmf(k) for k in ks])
                    counts = np.array([(xs.astype(int) == k).sum() for k in ks], dtype=float)
                    keep = probs * n >= 5
                    e = np.append(probs[keep] * n, max((1 - probs[keep].sum()) * n, 1e-9))
                    c = np.append(counts[keep], n - counts[keep].sum())
                    stat = float(((c - e) ** 2 / e)[e > 1e-6].sum())
                    bad = stat > float(stats.chi2.isf(1e-6, max(1, int((e > 1e-6).sum()) - 1)))
                    detail = f"chi2={stat:.1f}, mean {xs.mean():.3f} vs {ref.mean():.3f}"
                else:
                    pv = stats.kstest(xs, ref.cdf)[1]
                    bad = pv < 1e-6
                    detail = f"KS p={pv:.2e}, mean {xs.mean():.3f} vs {ref.mean():.3f}"
                if bad:
                    ctx.property_failure(None, f"{name} vectorised by {how}: the lanes do not follow the documented distribution of the keyword parameter ({detail})", {**case, "detail": detail})
            except Exception as ex:
                impl.reset_handlers()
                ctx.property_failure(None, f"{name} vectorised by {how} raised {type(ex).__name__}: {str(ex)[:150]}", case)
            ctx.case(sample=case if how == "repeat" and name.startswith("geometric") else None, nontrivial_key=("vec-kw", name, how))
            ctx.count("vectorised-keyword")


def user_wrapped(G, ctx):
    import jax.numpy as jnp
    import jax.random as jr
    from genjax.core import distribution, tfp_distribution
    from genjax.pjax import wrap_logpdf, wrap_sampler
    from tensorflow_probability.substrates import jax as tfp
    from scipy import stats
    d1 = tfp_distribution(lambda rate: tfp.distributions.Exponential(rate), name="my_exp")
    lp = float(d1.logpdf(jnp.float32(0.7), jnp.float32(2.0)))
    xs = np.asarray(G.seed(lambda: d1.sample(jnp.float32(2.0), sample_shape=(4000,)))(jr.key(5)))
    if abs(lp - stats.expon(scale=0.5).logpdf(0.7)) > 1e-4 or stats.kstest(xs.astype(np.float64), stats.expon(scale=0.5).cdf)[1] < 1e-6:
        ctx.property_failure(None, "a user-wrapped tfp_distribution does not reproduce its TFP density / sampler", {"kind": "user-wrapped", "which": "tfp_distribution"})
    import jax
    d2 = distribution(wrap_sampler(lambda key, a, sample_shape=(): a + jax.random.uniform(key, tuple(sample_shape) + jnp.shape(a)), name="shifted_u"),
                      wrap_logpdf(lambda v, a: jnp.where((v >= a) & (v <= a + 1), 0.0, -jnp.inf)), name="shifted_u")
    ys = np.asarray(G.seed(lambda: d2.sample(jnp.float32(3.0), sample_shape=(2000,)))(jr.key(6)))
    tr = G.seed(d2.simulate)(jr.key(7), jnp.float32(3.0))
    if ys.min() < 3.0 or ys.max() > 4.0 or abs(ys.mean() - 3.5) > 0.05 or float(tr.get_score()) != 0.0:
        ctx.property_failure(None, "a user-wrapped distribution(sampler, logpdf) does not sample/score as written", {"kind": "user-wrapped", "which": "distribution"})
    ctx.case(nontrivial_key="user-wrapped")
    ctx.count("user-wrapped")


def lean_spec_table():
    """(name -> (nparams, kind, term)) printed by the Lean driver: the terms whose denotation is PROVED equal to the
    normalised densities of Proofs/DistSpec*.lean (theorems C13_spec_<name>_denotes)"""
    import distspec_eval
    ans = distspec_eval.parse_sexp(common.driver_run(["(distspec)"])[0])
    if not ans or ans[0] != "ok":
        raise common.Infra("driver (distspec): " + str(ans)[:200])
    return {e[0]: (int(e[1]), e[2], e[3]) for e in ans[1:]}


def _flatten(v):
    return [float(x) for x in np.asarray(v, dtype=np.float64).reshape(-1)]


def check_lean_spec(G, ctx, spec, lean):
    """dist.logpdf vs the Lean spec term evaluated in float64 (the tie between the proved densities and the code)"""
    import jax.numpy as jnp
    import distspec_eval
    import genjax.distributions as D
    name = spec["name"]
    if name not in lean:
        ctx.correspondence_break("DistExpr.specTable (Lean) vs genjax.distributions", f"no Lean spec term for exported distribution {name}", {"distribution": name})
        return
    nparams, kind, term = lean[name]
    plist = []
    for pv in list(spec["params"]) + list(spec["kw"].values()):
        plist += _flatten(pv)
    if len(plist) != nparams:
        ctx.count("leanspec:skipped-dimension")       # vector distributions are tied at the fixed dimension of the Lean term only
        return
    dist = getattr(D, name)
    params = [jnp.asarray(p) for p in spec["params"]]
    kw = {k: jnp.asarray(v) for k, v in spec["kw"].items()}
    case = {"kind": "lean-spec", "distribution": name, "params": plist}
    for x in spec["pts"]:
        xs = _flatten(x) if spec["dtype"] != "bool" else [1.0 if x else 0.0]
        try:
            val = distspec_eval.evaluate(term, plist, xs if len(xs) > 1 else xs[0])
            want = math.log(val) if val > 0 else -math.inf
            xv = jnp.asarray(x) if spec["dtype"] != "bool" else jnp.asarray(bool(x))
            got = float(dist.logpdf(xv, *params, **kw))
        except Exception as ex:
            ctx.property_failure(None, f"{name}: evaluating logpdf / the Lean spec term raised {type(ex).__name__}: {str(ex)[:140]}", {**case, "x": xs})
            return
        if not (abs(got - want) <= 2e-4 * (1 + abs(want))) and not (got == want):
            ctx.correspondence_break(f"C13_spec_{name}_denotes term vs {name}.logpdf", f"x={xs}: logpdf {got}, Lean spec density gives {want}", {**case, "x": xs})
            ctx.property_failure(None, f"{name}({plist}).logpdf({xs}) = {got}, but the documented density (Lean term spec_{name}, proved normalised) gives {want}",
                                 {**case, "x": xs, "logpdf": got, "lean_spec": want})
            return
    ctx.case(nontrivial_key=("lean-spec", name, str(plist)))
    ctx.count("leanspec:" + name)


def shard(ctx, idxs, n):
    G = impl.load()
    T = table()
    lean = lean_spec_table()
    for i in idxs:
        check_density(G, ctx, T[i])
        check_lean_spec(G, ctx, T[i], lean)
        if not T[i].get("edge"):
            check_sampler(G, ctx, T[i], n)


def source_table_obligation(ctx, audit):
    """TRANSLATOR tie: regenerate (name -> TFP class, parameter feeds) from the current source of distributions.py and let Lean
    re-check it against the documented table the spec terms are written for (theorem implTable_is_documented)."""
    import dist_translate
    impl.load()
    pts = {}
    for t in table():
        pts.setdefault(t["name"], (t["params"], t["kw"]))
    tab = dist_translate.extract(common.REPO, pts)
    ok, log = dist_translate.obligation(common.LEAN, tab)
    audit["obligations"] = audit.get("obligations", 0) + 1
    audit.setdefault("theorems", []).append("implTable_is_documented (regenerated from src/genjax/distributions.py)")
    if ok:
        audit["discharged"] = audit.get("discharged", 0) + 1
    else:
        audit["ok"] = False
        audit.setdefault("bad", []).append("implTable_is_documented: the table regenerated from distributions.py is not the documented table (DistDoc.docTable)")
        audit["log"] = (audit.get("log") or "") + "\n" + log + "\nregenerated table:\n" + dist_translate.lean_table(tab)
    ctx.count("translator:distributions.py entries", len(tab))
    return ok


def batched_parameter_independence(G, ctx, n_keys):
    """A distribution called with ONE parameter batched (an array of equal values, the others scalar) - directly and with only that
    parameter mapped by modular_vmap - returns one INDEPENDENT draw per component: the components are never equal (continuous
    families) and uncorrelated over keys.  A sampler that sizes its noise by one parameter only passes every per-component test
    (marginals, shapes, dtypes) and fails this joint one."""
    import jax
    import jax.numpy as jnp
    import jax.random as jr
    import genjax.distributions as D
    seen = set()
    for spec in table():
        if spec["kind"] == "vec" or spec["name"] == "categorical" or spec.get("edge") or spec["name"] in seen:
            continue
        seen.add(spec["name"])
        dist = getattr(D, spec["name"])
        slots = [("pos", j) for j in range(len(spec["params"]))] + [("kw", k) for k in spec["kw"]]
        for kind, j in slots:
            for mode in ("direct", "mapped"):
                case = {"kind": "batched-parameter", "dist": spec["name"], "slot": [kind, j], "mode": mode}

                def draw(key, kind=kind, j=j, mode=mode):
                    def call(v):
                        args = list(spec["params"])
                        kw = dict(spec["kw"])
                        if kind == "pos":
                            args[j] = v
                        else:
                            kw[j] = v
                        return dist.sample(*args, **kw)
                    base = spec["params"][j] if kind == "pos" else spec["kw"][j]
                    vec = jnp.full((3,), base, dtype=jnp.float32)
                    if mode == "direct":
                        return G.seed(lambda: call(vec))(key)
                    return G.seed(G.modular_vmap(call, in_axes=(0,)))(key, vec)
                try:
                    xs = np.asarray(jax.vmap(draw)(jr.split(jr.key(ctx.seed + 77), n_keys)), dtype=np.float64)
                except Exception as ex:
                    impl.reset_handlers()
                    ctx.property_failure(None, f"{spec['name']}: sampling with parameter {j} batched ({mode}) raised {type(ex).__name__}: {str(ex)[:140]}", case)
                    continue
                if xs.shape != (n_keys, 3):
                    ctx.property_failure(None, f"{spec['name']}: parameter {j} batched over 3 components ({mode}) gives draws of shape {xs.shape[1:]}", case)
                    continue
                if spec["kind"] == "cont":
                    eq = float(np.mean((xs[:, 0] == xs[:, 1]) | (xs[:, 1] == xs[:, 2])))
                    if eq > 0.01:
                        ctx.property_failure(None, f"{spec['name']}: with parameter {j} batched ({mode}) the components of one draw are EQUAL in {eq:.0%} of the runs - one noise draw is shared", {**case, "equal_fraction": eq})
                        continue
                rk = np.argsort(np.argsort(xs + 1e-9 * np.random.default_rng(0).standard_normal(xs.shape), axis=0), axis=0).astype(np.float64)
                c = np.corrcoef(rk.T)
                worst = max(abs(c[0, 1]), abs(c[0, 2]), abs(c[1, 2]))
                if np.isfinite(worst) and worst > 5.5 / np.sqrt(n_keys):
                    ctx.property_failure(None, f"{spec['name']}: with parameter {j} batched ({mode}) the components are rank-correlated ({worst:.3f} over {n_keys} keys)", {**case, "corr": float(worst)})
                ctx.case(sample=case if (spec["name"], mode) == ("normal", "direct") and j == 1 else None, nontrivial_key=("batched-parameter", spec["name"], str(j), mode))
                ctx.count("batched-parameter")


def run(ctx, audit):
    source_table_obligation(ctx, audit)
    T = table()
    n = 20000 if ctx.thorough else 4000
    k = 12
    common.run_sharded(ctx, "props.c13", "shard", [(list(range(len(T)))[i::k], n) for i in range(k)])
    user_wrapped(impl.load(), ctx)
    vectorised_params(impl.load(), ctx)
    vectorised_keyword_params(impl.load(), ctx, 3000 if ctx.thorough else 1500)
    batched_parameter_independence(impl.load(), ctx, 1500 if ctx.thorough else 500)
    return {"rule": RULE, "distributions": sorted({t["name"] for t in T})}


def replay(ctx, payload):
    G = impl.load()
    c = payload.get("case") or {}
    for spec in table():
        if spec["name"] == c.get("distribution"):
            check_density(G, ctx, spec)
            check_lean_spec(G, ctx, spec, lean_spec_table())
            check_sampler(G, ctx, spec, 4000)
    for i in ctx.issues:
        print("REPRODUCED:", i["what"])
    if not ctx.issues:
        print("not reproduced")
    return 1 if ctx.issues else 0
