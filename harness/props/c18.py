"""C18 — chain returns exactly the burnt-in, thinned kernel iterates and diagnostics."""
import itertools

import numpy as np

import common
import impl
import sexp

RULE = ("grid over n_steps<=12 (thorough 16), burn_in<n_steps, thinning 1..4, kernels {mh, mala, mh;mh composite, mh;hmc composite}, "
        "1, 2 and 3 chains, fresh key per case: chain(b,k) vs the slice [b::k] of chain(0,1) under the same key (every trace leaf, accepts, "
        "rate, count), vs manual iteration of the seeded kernel with the per-iteration keys, and vs the Lean model fed the recorded run "
        "(Chain.chain for one chain; Chain.runChain = dispatch on n_chains + multiChain for the recorded per-lane flags: every trace leaf, "
        "accepts, n_steps, n_chains, leading chain axis and the reported acceptance_rate as an exact rational); "
        "non-trivial = burn_in>0 or thinning>1")


def setup(G):
    import jax.numpy as jnp
    from genjax.inference.mcmc import chain, hmc, mala, mh
    normal = G.normal

    @G.gen
    def model(m):
        x = normal(m, 1.0) @ "x"
        y = normal(x, 0.5) @ "y"
        z = normal(x + y, 1.0) @ "z"
        return x + y

    kernels = {
        "mh": lambda tr: mh(tr, G.sel("x")),
        "mala": lambda tr: mala(tr, G.sel("x"), 0.3),
        "mh;mh": lambda tr: mh(mh(tr, G.sel("x")), G.sel("y")),
        "mh;hmc": lambda tr: hmc(mh(tr, G.sel("y")), G.sel("x"), 0.1, 3),
        # a kernel that REPEATS its sub-move with lax.scan: every save(accept=...) sits inside the nested scan, none at the kernel's top level
        "mh-loop3": lambda tr: __import__("jax").lax.scan(lambda c, _: (mh(c, G.sel("x")), None), tr, None, length=3)[0],
    }
    return model, kernels, chain


def leaves_of(res):
    import jax
    return [np.asarray(l) for l in jax.tree_util.tree_leaves(res.traces)]


def run_chain(G, chain, kern, tr, key, n, b, k, c):
    return G.seed(chain(kern))(key, tr, G.const(n), burn_in=G.const(b), autocorrelation_resampling=G.const(k), n_chains=G.const(c))


def check_case(G, ctx, model, kernels, chain, kname, n, b, k, c, key_int, full_cache):
    import jax.random as jr
    key = jr.key(key_int)
    tr, _ = G.seed(model.generate)(jr.key(1), {"z": 1.5}, 0.25)
    case = {"kind": "chain", "kernel": kname, "n_steps": n, "burn_in": b, "thinning": k, "n_chains": c, "key": key_int}
    ck = (kname, n, c, key_int)
    try:
        if ck not in full_cache:
            full_cache[ck] = run_chain(G, chain, kernels[kname], tr, key, n, 0, 1, c)
        full = full_cache[ck]
        res = run_chain(G, chain, kernels[kname], tr, key, n, b, k, c)
    except Exception as ex:
        impl.reset_handlers()
        ctx.property_failure(None, f"chain raised {type(ex).__name__}: {str(ex)[:150]}", case)
        return
    want_n = len(range(b, n, k))
    ax = 0 if c == 1 else 1
    sl = (slice(b, n, k),) if c == 1 else (slice(None), slice(b, n, k))
    ok = True
    for lf, lr in zip(leaves_of(full), leaves_of(res)):
        if lf.ndim <= ax - 0 and c == 1 and lf.ndim == 0:
            continue
        try:
            want = lf[sl]
        except IndexError:
            continue
        if want.shape != lr.shape or not np.array_equal(want, lr, equal_nan=True):
            ok = False
            break
    if not ok:
        ctx.property_failure(None, f"chain(burn_in={b}, thinning={k}) is not the slice [{b}::{k}] of the un-thinned run with the same key", case)
    fa, ra = np.asarray(full.accepts), np.asarray(res.accepts)
    if fa[sl].shape != ra.shape or not np.array_equal(fa[sl], ra):
        ctx.property_failure(None, "accepts are not aligned with the retained steps", case)
    if int(res.n_steps.value) != want_n:
        ctx.property_failure(None, f"n_steps={int(res.n_steps.value)} but {want_n} states are retained", case)
    if ra.size and abs(float(res.acceptance_rate) - float(np.mean(ra.astype(np.float64)))) > 1e-6:
        ctx.property_failure(None, f"acceptance_rate {float(res.acceptance_rate)} != mean of accepts {float(np.mean(ra))}", case)
    if c == 1 and kname in ("mh", "mh-loop3"):
        # ABSOLUTE meaning of the flags (not only their alignment): an mh move on the continuous choice x was accepted iff x changed
        xs = np.asarray(full.traces.get_choices()["x"], dtype=np.float64)
        prev = np.concatenate([[float(tr.get_choices()["x"])], xs[:-1]])
        moved = xs != prev
        flags = fa.reshape(len(xs), -1).astype(bool).any(axis=1) if fa.size else np.zeros(len(xs), bool)
        if fa.shape[0] != len(xs) or not np.array_equal(moved, flags):
            ctx.property_failure(None, f"accepts do not say which steps moved the state: moved {moved.astype(int).tolist()}, accept flags {np.asarray(fa).astype(float).tolist()} "
                                 "(the kernel's save(accept=...) values were lost)", {**case, "moved": moved.astype(int).tolist()})
    if c > 1:
        x = np.asarray(res.traces.get_choices()["x"])
        if x.shape[0] != c:
            ctx.property_failure(None, "multi-chain result lacks the leading chain axis", case)
        elif x.shape[1] > 2 and any(np.array_equal(x[0], x[j]) for j in range(1, c)):
            ctx.property_failure(None, "two chains produced identical states (shared randomness)", case)
    if c == 1 and kname != "mh-loop3":      # (the looped kernel returns one flag per sub-move: the model's flags are per step)
        # Lean model on the recorded un-thinned run: states are identified by their index
        acc = [bool(a) for a in fa]
        line = sexp.dumps(["chain", n, b, k, ["T" if a else "F" for a in acc]])
        r = sexp.loads(common.driver_run([line])[0])
        m_idx = [int(t) for t in r[1]]
        m_acc = [t == "T" for t in r[2]]
        xs_full = np.asarray(full.traces.get_choices()["x"])
        xs_res = np.asarray(res.traces.get_choices()["x"])
        if len(m_idx) != len(xs_res) or any(xs_full[i] != xs_res[j] for j, i in enumerate(m_idx)) or m_acc != [bool(a) for a in ra] or int(r[3]) != int(res.n_steps.value):
            case["model"] = r
            ctx.correspondence_break("Chain.chain vs chain()", f"model indices {m_idx} accepts {m_acc}", case)
    if kname != "mh-loop3":
        model_runchain(ctx, full, res, fa, ra, n, b, k, c, case)
    ctx.case(sample=case if ctx.coverage["evaluations"] % 37 == 0 else None,
             nontrivial_key=(kname, n, b, k, c) if (b > 0 or k > 1) else None)
    ctx.count(f"{kname}:chains={c}")


def model_runchain(ctx, full, res, fa, ra, n, b, k, c, case):
    """Lean model `Chain.runChain` (dispatch on n_chains; `multiChain` lanes = single chains of the lanes' kernels)
    fed the recorded un-thinned flags of every lane; states are identified by their step index.
    Compared: result kind (chain axis or not), every trace leaf, accepts, n_steps, n_chains, acceptance_rate."""
    lanes = [fa] if c == 1 else list(fa)
    line = sexp.dumps(["runchain", n, b, k, c, [["T" if bool(a) else "F" for a in lane] for lane in lanes]])
    r = sexp.loads(common.driver_run([line])[0])
    name = "Chain.runChain vs chain(n_chains)"

    def brk(what):
        cs = dict(case)
        cs["model_runchain"] = r
        ctx.correspondence_break(name, what, cs)

    if not r or r[0] != ("single" if c == 1 else "multi"):
        return brk(f"model answered {r[:1]} for n_chains={c}")
    if c == 1:
        m_idx, m_acc, m_n, m_rate = [[int(t) for t in r[1]]], [[t == "T" for t in r[2]]], int(r[3]), float(sexp.num(r[5]))
        got_acc = [[bool(a) for a in ra]]
    else:
        m_idx = [[int(t) for t in row] for row in r[1]]
        m_acc = [[t == "T" for t in row] for row in r[2]]
        m_n, m_rate = int(r[3]), float(sexp.num(r[6]))
        got_acc = [[bool(a) for a in row] for row in ra] if ra.ndim == 2 else None
        if int(r[4]) != int(res.n_chains.value):
            return brk(f"model n_chains {r[4]} != result n_chains {int(res.n_chains.value)}")
        if ra.ndim != 2 or ra.shape[0] != len(m_acc):
            return brk(f"accepts have shape {ra.shape}, model has a leading chain axis of {len(m_acc)}")
    if m_n != int(res.n_steps.value):
        return brk(f"model n_steps {m_n} != result n_steps {int(res.n_steps.value)}")
    if got_acc != m_acc:
        return brk(f"model accepts {m_acc} != result accepts {got_acc}")
    for lf, lr in zip(leaves_of(full), leaves_of(res)):
        if lf.ndim < (1 if c == 1 else 2):
            continue
        for ci, idx in enumerate(m_idx):
            want = lf[idx] if c == 1 else lf[ci][idx]
            got = lr if c == 1 else (lr[ci] if lr.shape[:1] == (len(m_idx),) else None)
            if got is None or want.shape != got.shape or not np.array_equal(want, got, equal_nan=True):
                return brk(f"lane {ci}: a trace leaf is not the un-thinned run at the model's indices {idx}")
    if m_n > 0 and abs(float(res.acceptance_rate) - m_rate) > 1e-6:
        return brk(f"acceptance_rate {float(res.acceptance_rate)} != model rate {r[5] if c == 1 else r[6]} (mean of the returned flags)")


def manual_iteration(G, ctx, model, kernels, chain, kname, n, key_int):
    """the un-thinned run equals iterating the seeded kernel with the per-iteration keys"""
    import jax
    import jax.random as jr
    key = jr.key(key_int)
    tr, _ = G.seed(model.generate)(jr.key(1), {"z": 1.5}, 0.25)
    full = run_chain(G, chain, kernels[kname], tr, key, n, 0, 1, 1)
    _, sub = jr.split(key)
    xs = []
    cur = tr
    for j in range(n):
        cur = G.seed(kernels[kname])(jr.fold_in(sub, j), cur)
        xs.append(float(cur.get_choices()["x"]))
    got = [float(v) for v in np.asarray(full.traces.get_choices()["x"])]
    case = {"kind": "manual-iteration", "kernel": kname, "n_steps": n, "key": key_int, "chain_x": got, "manual_x": xs}
    if not np.allclose(got, xs, rtol=1e-6, atol=1e-6):
        ctx.property_failure(None, "the un-thinned chain is not the kernel iterated from the initial trace (per-iteration keys fold_in(sub_key, j))", case)
    ctx.case(sample=case, nontrivial_key=("manual", kname, n))


def shard(ctx, kname, cases, multi, manual_n):
    G = impl.load()
    model, kernels, chain = setup(G)
    full_cache = {}
    key_int = ctx.seed * 100 + 11
    for (n, b, k) in cases:
        check_case(G, ctx, model, kernels, chain, kname, n, b, k, 1, key_int, full_cache)
    for (n, b, k, c) in multi:
        check_case(G, ctx, model, kernels, chain, kname, n, b, k, c, key_int, full_cache)
    if manual_n:
        manual_iteration(G, ctx, model, kernels, chain, kname, manual_n, key_int + 1)


def run(ctx, audit):
    rng = ctx.rng
    nmax = 14 if ctx.thorough else 9
    shards = []
    for kname in ("mh", "mala", "mh;mh", "mh;hmc", "mh-loop3"):
        grid = []
        for n in ([1, 2, 5, nmax] if not ctx.thorough else [1, 2, 3, 5, 8, 11, nmax]):
            for b in sorted({0, 1, n // 2, n - 1} & set(range(n))):
                for k in (1, 2, 3, 4):
                    grid.append((n, b, k))
        rng.shuffle(grid)
        grid = grid[: ((70 if ctx.thorough else 14) if kname != "mh-loop3" else 6)]
        multi = [(6, 2, 2, 3), (7, 1, 3, 3)] if kname in ("mh", "mala") else [(5, 1, 2, 2)] if kname == "mh;mh" else []
        half = len(grid) // 2
        shards.append((kname, grid[:half], multi[:1], 4 if kname != "mh;mh" else 0))
        shards.append((kname, grid[half:], multi[1:], 0))
    common.run_sharded(ctx, "props.c18", "shard", shards)
    return {"rule": RULE}


def replay(ctx, payload):
    G = impl.load()
    model, kernels, chain = setup(G)
    c = payload.get("case") or {}
    if c.get("kind") == "chain":
        check_case(G, ctx, model, kernels, chain, c["kernel"], c["n_steps"], c["burn_in"], c["thinning"], c["n_chains"], c["key"], {})
    elif c.get("kind") == "manual-iteration":
        manual_iteration(G, ctx, model, kernels, chain, c["kernel"], c["n_steps"], c["key"])
    for i in ctx.issues:
        print("REPRODUCED:", i["what"])
    for i in ctx.corr_breaks:
        print("CORRESPONDENCE:", i["what"])
    if not ctx.issues and not ctx.corr_breaks:
        print("not reproduced")
    return 1 if ctx.issues else 0
