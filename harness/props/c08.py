"""C08 — modular_vmap and Vmap are lane-wise maps, for densities and for sampling."""
import itertools
import json
import random

import numpy as np

import common
import impl
import sexp

RULE = ("functions with deterministic code, log-density sites and sampling sites (a parameter-revealing probe sampler, so lane<->parameter "
        "pairing and layout are observable, plus real normal sites for independence), sample_shape sites, nested modular_vmap, scan and cond "
        "inside the mapped function; in_axes in {0, 1, -1, None, tuples, pytrees}, axis_size given or inferred, per-lane parameters of differing "
        "rank: modular_vmap(f)(args) vs stacking f(slice_i) and vs jax.vmap's layout; Vmap combinator / repeat: lane i of the vectorised trace "
        "is a coherent callee trace on lane i's arguments, density/weights/retvals are per-lane sums/stacks; sample-site layout vs the Lean "
        "layout model; value level: a structured probe (every entry = position in the one sampler call + the value of every signature slot) "
        "on the direct-site families, keyword/positional mixes with skipped slots and seeded random sites (in_axes, sample_shape, ranks) is "
        "compared entry by entry with the Lean model of the batching rule (VmapRule) and lane by lane with the un-mapped site; "
        "non-trivial = every (function, axes) case")


RMAX = 6            # structured probe: positions are padded to this rank with -1
SLOTS = ("a", "b", "c")


def probe(G, structured=False):
    """sampler returning a deterministic function of its parameters (broadcast over sample_shape): reveals pairing/layout.
    structured=True: signature (a=None, b=None, c=None); every entry of the returned array (shape sample_shape + broadcast of
    the parameter shapes) carries a trailing event vector [position in THIS call (padded with -1 to RMAX), a, b, c] with NaN
    for a slot left at its default - WHICH parameter values the entry was drawn from and WHERE in the one call it sits."""
    import jax.numpy as jnp
    from genjax.pjax import wrap_sampler

    def keyful(key, a, b, sample_shape=()):
        base = jnp.asarray(a, jnp.float32) + 100.0 * jnp.asarray(b, jnp.float32)
        return jnp.broadcast_to(base, tuple(sample_shape) + jnp.shape(base))

    def keyful_structured(key, a=None, b=None, c=None, sample_shape=()):
        ps = [None if p is None else jnp.asarray(p, jnp.float32) for p in (a, b, c)]
        batch = jnp.broadcast_shapes(*[jnp.shape(p) for p in ps if p is not None])
        full = tuple(sample_shape) + tuple(batch)
        assert len(full) <= RMAX
        cols = [jnp.broadcast_to(ix, full).astype(jnp.float32) for ix in jnp.indices(full, sparse=True)]
        cols += [jnp.full(full, -1.0, jnp.float32)] * (RMAX - len(full))
        cols += [jnp.full(full, jnp.nan, jnp.float32) if p is None else jnp.broadcast_to(p, full) for p in ps]
        return jnp.stack(cols, axis=-1)

    return wrap_sampler(keyful_structured, name="probe_struct") if structured else wrap_sampler(keyful, name="probe_param")


def functions(G):
    """name -> (f, list of (args, in_axes, axis_size))"""
    import jax
    import jax.numpy as jnp
    pp = probe(G)
    normal = G.normal
    F = {}
    v3 = jnp.array([1.0, 2.0, 3.0])
    m23 = jnp.arange(6.0).reshape(2, 3) + 1.0
    m32 = m23.T
    t234 = jnp.arange(24.0).reshape(2, 3, 4) + 1.0

    def f_det(x, y):
        return jnp.sin(x) * y + jnp.sum(x * y)
    F["deterministic"] = (f_det, [((v3, v3 * 2), (0, 0), None), ((v3, 2.0), (0, None), None), ((m23, v3), (1, 0), None),
                                  ((m23, v3), (-1, 0), None), ((m32, 0.5), (0, None), None)])

    def f_logpdf(x, mu):
        return normal.logpdf(x, mu, 0.5) + jnp.sum(normal.logpdf(jnp.stack([x, x]), mu, 1.0))
    F["log-density"] = (f_logpdf, [((v3, v3 * 0.5), (0, 0), None), ((v3, 0.0), (0, None), None), ((0.3, v3), (None, 0), None)])

    def f_site(a, b):
        return pp(a, b) * 2.0 + a
    F["probe-site"] = (f_site, [((v3, v3 * 2), (0, 0), None), ((v3, 5.0), (0, None), None), ((1.0, 5.0), (None, None), 3),
                                ((m23, v3), (1, 0), None), ((m23, m23 + 0.5), (1, 1), None), ((m32, m32), (0, 0), None),
                                ((t234, 0.0), (2, None), None), ((t234, t234 * 2.0), (-1, 2), None), ((t234, 1.0), (1, None), None)])

    def f_shape(a):
        return pp(a, 1.0, sample_shape=(2,)) + a
    F["sample_shape-site"] = (f_shape, [((v3,), (0,), None), ((2.0,), (None,), 3), ((m23,), (1,), None)])

    def f_nested(a):
        inner = G.modular_vmap(lambda: pp(a, 3.0), in_axes=(), axis_size=2)()
        return inner + a
    F["nested-repeat"] = (f_nested, [((v3,), (0,), None), ((2.0,), (None,), 3)])

    def f_nested2(a, w):
        return G.modular_vmap(lambda ww: pp(a, ww), in_axes=(0,))(w)
    F["nested-batched"] = (f_nested2, [((v3, jnp.array([1.0, 2.0])), (0, None), None), ((m32, jnp.array([1.0, 2.0])), (0, None), None)])

    def f_scan(a):
        def body(c, t):
            s = pp(a + c, t)
            return c + 1.0, s
        _, ys = jax.lax.scan(body, 0.0, jnp.arange(3.0))
        return ys
    F["scan-inside"] = (f_scan, [((v3,), (0,), None)])

    def f_rscan(a):
        def body(c, t):
            s = pp(a + c, t)
            return c * 0.5 + s, s + c
        c, ys = jax.lax.scan(body, 1.0, jnp.arange(3.0), reverse=True)
        return ys + c
    F["reverse-scan-inside"] = (f_rscan, [((v3,), (0,), None), ((2.0,), (None,), 3)])

    def f_scan2(a):
        # a site at control-flow depth 2 (scan in scan), none directly in the outer body
        def inner(c, t):
            s = pp(a + c, t)
            return c + 1.0, s

        def outer(c, t):
            c2, ys = jax.lax.scan(inner, c + t, jnp.arange(2.0))
            return c2, jnp.sum(ys)
        _, zs = jax.lax.scan(outer, 0.0, jnp.arange(2.0))
        return zs
    F["scan-in-scan"] = (f_scan2, [((v3,), (0,), None), ((2.0,), (None,), 3)])

    def f_cond_in_scan(a):
        def body(c, t):
            s = jax.lax.cond(t > 0, lambda: pp(a + c, 1.0), lambda: pp(a - c, 2.0) * 1.0)
            return c + 1.0, s
        _, ys = jax.lax.scan(body, 0.0, jnp.arange(3.0))
        return ys
    F["cond-in-scan"] = (f_cond_in_scan, [((v3,), (0,), None), ((2.0,), (None,), 3)])

    def f_cond(a, flag):
        return jax.lax.cond(flag > 0, lambda: pp(a, 1.0), lambda: pp(a, 2.0) * 1.0)
    F["cond-inside"] = (f_cond, [((v3, jnp.array([1.0, -1.0, 1.0])), (0, 0), None), ((v3, 1.0), (0, None), None)])

    def f_kwdens(x, m, sc):
        return normal.logpdf(x, m, scale=sc) + normal.logpdf(x, loc=m * 0.5, scale=sc * 2.0)
    F["log-density-keyword-params"] = (f_kwdens, [((v3, v3 * 0.5, v3 + 1.0), (0, 0, 0), None), ((v3, 0.25, v3 + 1.0), (0, None, 0), None), ((m23, v3, 2.0), (1, 0, None), None)])

    def f_pytree(d):
        return pp(d["a"], d["b"][0]) + d["b"][1]
    F["pytree-axes"] = (f_pytree, [(({"a": v3, "b": (v3 * 2, 1.0)},), ({"a": 0, "b": (0, None)},), None)])

    def f_rank(loc, scale):
        return pp(loc, scale)        # per lane: scalar loc, vector scale -> vector output
    m33 = jnp.arange(9.0).reshape(3, 3) + 11.0
    F["differing-rank"] = (f_rank, [((v3, m32), (0, 0), None), ((jnp.array([1.0, 2.0]), m23), (0, 0), None),
                                    ((v3, m33), (0, 0), None)])          # lane count = vector length: silent mis-pairing
    return F


def slices(args, in_axes, n):
    import jax
    import jax.numpy as jnp

    def take(a, ax, i):
        return a if ax is None else jax.tree_util.tree_map(lambda x: jnp.take(x, i, axis=ax), a)
    out = []
    for i in range(n):
        out.append(tuple(jax.tree_util.tree_map(lambda ax, a: take(a, ax, i), ia, arg, is_leaf=lambda x: x is None) if isinstance(ia, (dict, tuple)) else take(arg, ia, i)
                         for arg, ia in zip(args, in_axes)))
    return out


def axis_len(args, in_axes, axis_size):
    import jax
    if axis_size is not None:
        return axis_size
    for arg, ia in zip(args, in_axes):
        leaves_ax = jax.tree_util.tree_leaves(ia, is_leaf=lambda x: x is None) if isinstance(ia, (dict, tuple)) else [ia]
        leaves = jax.tree_util.tree_leaves(arg)
        for ax, leaf in zip(leaves_ax, leaves):
            if ax is not None:
                return leaf.shape[ax]
    raise ValueError("no mapped axis")


def lane_ranks_differ(args, in_axes):
    """do the per-lane shapes of the (array) arguments have different ranks? (the open finding's region)"""
    import jax
    import jax.numpy as jnp
    ranks = set()
    for arg, ia in zip(args, in_axes):
        axs = jax.tree_util.tree_leaves(ia, is_leaf=lambda x: x is None) if isinstance(ia, (dict, tuple)) else [ia] * len(jax.tree_util.tree_leaves(arg))
        for leaf, ax in zip(jax.tree_util.tree_leaves(arg), axs):
            ranks.add(jnp.ndim(leaf) - (0 if ax is None else 1))
    return len(ranks) > 1


def check_function(G, ctx, name, f, args, in_axes, axis_size):
    import jax
    import jax.numpy as jnp
    import jax.random as jr
    case = {"kind": "modular_vmap", "function": name, "in_axes": json.dumps(in_axes, default=str), "axis_size": axis_size,
            "arg_shapes": [str(jax.tree_util.tree_map(jnp.shape, a)) for a in args]}
    try:
        n = axis_len(args, in_axes, axis_size)
        # per-slice reference, evaluated under seed (sites inside scan/cond cannot be evaluated unseeded: C14); the probe
        # sampler ignores its key, so the reference is a deterministic function of the slice
        want = jnp.stack([G.seed(f)(jr.key(0), *sl) for sl in slices(args, in_axes, n)])
    except Exception as ex:
        impl.reset_handlers()
        raise common.Infra(f"per-slice reference of {name} could not be evaluated: {type(ex).__name__}: {str(ex)[:200]}")
    try:
        got = G.seed(G.modular_vmap(f, in_axes=in_axes, axis_size=axis_size))(jr.key(1), *args)
    except Exception as ex:
        impl.reset_handlers()
        cls = "vmap-differing-rank" if (lane_ranks_differ(args, in_axes) and "broadcast" in str(ex).lower()) else None
        ctx.property_failure(cls, f"modular_vmap({name}, in_axes={in_axes}) raised {type(ex).__name__}: {str(ex)[:160]}", case, matches_asis=cls is not None)
        return
    got, want = np.asarray(got), np.asarray(want)
    if got.shape != want.shape:
        cls = "vmap-differing-rank" if lane_ranks_differ(args, in_axes) else None
        ctx.property_failure(cls, f"modular_vmap({name}, in_axes={in_axes}): result shape {got.shape}, stacking f(slice_i) gives {want.shape}", case, matches_asis=cls is not None)
    elif not np.allclose(got, want, rtol=1e-5, atol=1e-5):
        bad = [int(i) for i in range(got.shape[0]) if not np.allclose(got[i], want[i], rtol=1e-5, atol=1e-5)]
        case["lanes_differing"] = bad
        cls = "vmap-differing-rank" if lane_ranks_differ(args, in_axes) else None
        ctx.property_failure(cls, f"modular_vmap({name}, in_axes={in_axes}): lanes {bad} differ from f applied to the slices (lane/parameter pairing or layout)", case, matches_asis=cls is not None)
    if name in ("deterministic", "log-density", "log-density-keyword-params"):
        ref = np.asarray(jax.vmap(f, in_axes=in_axes, axis_size=axis_size)(*args))
        if ref.shape != got.shape or not np.allclose(ref, got, rtol=1e-5, atol=1e-5):
            ctx.property_failure(None, f"modular_vmap({name}) differs from jax.vmap on a deterministic/density function", case)
    ctx.case(sample=case if ctx.coverage["evaluations"] % 6 == 0 else None, nontrivial_key=(name, case["in_axes"], str(axis_size), str(case["arg_shapes"])))
    ctx.count("fn:" + name)


def event_shaped_families(G, ctx):
    """families whose parameters have EVENT dimensions of different rank (multivariate_normal: vector loc, matrix covariance;
    multinomial: scalar count, vector probs) under a map: lane i is one draw of that lane's parameters, shape (N, event)"""
    import jax.numpy as jnp
    import jax.random as jr
    import genjax.distributions as D
    N = 4
    locs = jnp.stack([jnp.array([10.0 * i, -10.0 * i]) for i in range(N)])
    cov = jnp.array([[1.0, 0.3], [0.3, 0.5]]) * 1e-4
    covs = jnp.stack([cov * (i + 1) for i in range(N)])
    cases = [
        ("mvn(mapped loc, shared cov)", lambda l: D.multivariate_normal.sample(l, cov), (0,), (locs,), locs),
        ("mvn(mapped loc, mapped cov)", lambda l, c: D.multivariate_normal.sample(l, c), (0, 0), (locs, covs), locs),
        ("mvn(shared loc, mapped cov)", lambda c: D.multivariate_normal.sample(locs[1], c), (0,), (covs,), jnp.stack([locs[1]] * N)),
    ]
    for name, f, ia, args, centre in cases:
        case = {"kind": "event-shaped-family", "site": name}
        try:
            out = np.asarray(G.seed(G.modular_vmap(f, in_axes=ia))(jr.key(7), *args))
            if out.shape != (N, 2):
                ctx.property_failure(None, f"{name}: result shape {out.shape}, one draw per lane has shape {(N, 2)}", {**case, "shape": list(out.shape)})
            elif not np.allclose(out, np.asarray(centre), atol=0.5):
                ctx.property_failure(None, f"{name}: lane i is not drawn around lane i's location", {**case, "values": out.tolist()})
        except Exception as ex:
            impl.reset_handlers()
            ctx.property_failure(None, f"{name} raised {type(ex).__name__}: {str(ex)[:160]}", case)
        ctx.case(sample=case, nontrivial_key=("event-family", name))
        ctx.count("event-shaped-family")
    # the same through the Vmap combinator: choices (N, 2), scalar score = sum of per-lane scores
    @G.gen
    def m(l, c):
        return D.multivariate_normal(l, c) @ "x"
    case = {"kind": "event-shaped-family", "site": "Vmap(mvn model)"}
    try:
        tr = G.seed(m.vmap(in_axes=(0, 0)).simulate)(jr.key(8), locs, covs)
        x = np.asarray(tr.get_choices()["x"])
        lanes = sum(float(m.assess({"x": x[i]}, locs[i], covs[i])[0]) for i in range(N)) if x.shape == (N, 2) else float("nan")
        if x.shape != (N, 2) or np.shape(tr.get_score()) != () or not abs(float(tr.get_score()) + lanes) <= 1e-3 * (1 + abs(lanes)):
            ctx.property_failure(None, f"Vmap of a multivariate_normal model: choices shape {x.shape}, score {np.asarray(tr.get_score()).tolist()} vs -(sum of per-lane densities) {-lanes}", case)
    except Exception as ex:
        impl.reset_handlers()
        ctx.property_failure(None, f"Vmap(mvn model) raised {type(ex).__name__}: {str(ex)[:160]}", case)
    ctx.case(sample=case, nontrivial_key=("event-family", "vmap-model"))


def independence(G, ctx):
    """every sampling site yields one independent draw per lane - never one draw broadcast"""
    import jax
    import jax.numpy as jnp
    import jax.random as jr
    normal = G.normal
    progs = {
        "unbatched-site": (lambda x: normal.sample(0.0, 1.0) + 0.0 * x, (jnp.zeros(4),), (0,), None),
        "axis-size-only": (lambda: normal.sample(0.0, 1.0), (), (), 4),
        "sample_shape": (lambda x: normal.sample(x * 0.0, 1.0, sample_shape=(3,)), (jnp.zeros(4),), (0,), None),
        "nested": (lambda x: G.modular_vmap(lambda: normal.sample(0.0, 1.0), in_axes=(), axis_size=3)() + 0.0 * x, (jnp.zeros(4),), (0,), None),
        "in-scan": (lambda x: jax.lax.scan(lambda c, t: (c, normal.sample(c * 0.0, 1.0)), x, jnp.arange(3))[1], (jnp.zeros(4),), (0,), None),
        # lane-INDEPENDENT parameters at control-flow depth 2: a rule that leaves nested bodies to JAX would broadcast one draw
        "scan-in-scan(unbatched)": (lambda x: jax.lax.scan(lambda c, t: (c, jax.lax.scan(lambda c2, t2: (c2, normal.sample(0.0, 1.0)), 0.0, jnp.arange(2))[1]), 0.0, jnp.arange(2))[1] + 0.0 * x,
                                    (jnp.zeros(3),), (0,), None),
        "cond-in-scan(unbatched)": (lambda x: jax.lax.scan(lambda c, t: (c, jax.lax.cond(t > 0, lambda: normal.sample(0.0, 1.0), lambda: normal.sample(1.0, 2.0))), 0.0, jnp.arange(2))[1] + 0.0 * x,
                                    (jnp.zeros(3),), (0,), None),
    }
    for name, (f, args, ia, asz) in progs.items():
        case = {"kind": "independence", "program": name}
        try:
            out = np.asarray(G.seed(G.modular_vmap(f, in_axes=ia, axis_size=asz))(jr.key(2), *args)).reshape(-1)
        except Exception as ex:      # every program here is one modular_vmap must map: scan / cond / nested maps inside, sites with lane-independent parameters
            impl.reset_handlers()
            ctx.property_failure(None, f"{name}: seed(modular_vmap(f)) raised {type(ex).__name__}: {str(ex)[:140]} on a function with sampling sites inside "
                                 "scan / cond / nested maps, which modular_vmap must map lane-wise", case)
            ctx.case(nontrivial_key=("indep", name))
            continue
        case["values"] = out.tolist()
        if len(set(out.tolist())) != out.size:
            ctx.property_failure(None, f"{name}: lanes/draws share values - one draw was broadcast instead of one independent draw per lane", case)
        ctx.case(sample=case, nontrivial_key=("indep", name))
        ctx.count("independence")


def opaque_wrapped(G, ctx):
    """a site wrapped in a higher-order primitive the modular_vmap interpreter does not interpret (jax.checkpoint, custom_jvp,
    custom_vjp; at top level, in a scan step, in a cond branch): the interpreter may refuse (it raises the site's lowering error),
    it may never re-bind the equation unchanged, which shares ONE draw between all lanes.  Called eagerly (no seed: seed has the same
    hole, which C14 covers, and would mask this one) and under seed."""
    import jax
    import jax.numpy as jnp
    import jax.random as jr
    import lowering
    normal = G.normal

    def site(x):
        return normal.sample(x * 0.0, 1.0)

    for cname in ("checkpoint", "custom_jvp", "custom_vjp"):
        w = lowering.wrap(G, cname, site)
        progs = {
            "top": lambda x: w(jnp.float32(0.0)) + 0.0 * x,
            "in-scan": lambda x: jax.lax.scan(lambda c, t: (c, w(c)), jnp.float32(0.0), jnp.arange(2))[1][0] + 0.0 * x,
            "in-cond": lambda x: jax.lax.cond(x > -1.0, lambda: w(jnp.float32(0.0)), lambda: jnp.float32(0.0)) + 0.0 * x,
            "batched-arg": lambda x: w(x),
        }
        for pname, f in progs.items():
            for seeded in (False, True):
                name = f"{'seed∘' if seeded else ''}modular_vmap({pname}: {cname}(site))"
                case = {"kind": "opaque-wrapped", "construct": cname, "program": pname, "seeded": seeded}
                mv = G.modular_vmap(f, in_axes=(0,))
                try:
                    out = np.asarray(G.seed(mv)(jr.key(5), jnp.zeros(4)) if seeded else mv(jnp.zeros(4))).reshape(-1)
                except Exception as ex:
                    impl.reset_handlers()
                    case["outcome"] = "raises " + type(ex).__name__
                    ctx.count("opaque-wrapped:raises")
                else:
                    case["outcome"] = out.tolist()
                    if len(set(out.tolist())) != out.size:
                        ctx.property_failure(None, f"{name}: the lanes hold {out.tolist()} - one draw was broadcast to all lanes instead of one "
                                             "independent draw per lane (the interpreter re-bound the wrapping equation unchanged)", case)
                    ctx.count("opaque-wrapped:independent")
                ctx.case(sample=case if (pname, seeded) == ("top", False) else None, nontrivial_key=("opaque", cname, pname, seeded))


def combinator(G, ctx):
    """Vmap / repeat: lane i is a coherent callee trace on lane i's args; density, weights, retvals are per-lane sums / stacks"""
    import jax
    import jax.numpy as jnp
    import jax.random as jr
    normal = G.normal

    @G.gen
    def callee(m, s):
        a = normal(m, s) @ "a"
        b = normal(a * 2.0, 0.5) @ "b"
        return a + b
    @G.gen
    def callee_kw(m, s):
        a = normal(m, scale=s) @ "a"                 # the lane-wise parameter is passed BY KEYWORD
        b = normal(loc=a * 2.0, scale=0.5) @ "b"
        return a + b
    ms = jnp.array([0.0, 1.0, -1.0])
    kw_cases = (("vmap(0,0) keyword params", callee_kw.vmap(in_axes=(0, 0)), (ms, jnp.array([1.0, 2.0, 0.5])), lambda i: (ms[i], jnp.array([1.0, 2.0, 0.5])[i])),)
    for name, vm, args, lane_args in kw_cases:
        case = {"kind": "combinator", "combinator": name}
        try:
            tr = G.seed(vm.simulate)(jr.key(3), *args)
            ch = tr.get_choices()
            tot = sum(float(callee.assess(jax.tree_util.tree_map(lambda x: x[i], ch), *lane_args(i))[0]) for i in range(3))
            if np.shape(tr.get_score()) != () or abs(float(tr.get_score()) + tot) > 1e-4 * (1 + abs(tot)):
                ctx.property_failure(None, f"{name}: trace score {np.asarray(tr.get_score()).tolist()} != -(sum of per-lane callee densities) {-tot}", case)
            d_all, _ = vm.assess(ch, *args)
            if np.shape(d_all) != () or abs(float(d_all) - tot) > 1e-4 * (1 + abs(tot)):
                ctx.property_failure(None, f"{name}: assess {np.asarray(d_all).tolist()} != sum of per-lane densities {tot}", case)
        except Exception as ex:
            impl.reset_handlers()
            ctx.property_failure(None, f"{name} raised {type(ex).__name__}: {str(ex)[:160]}", case)
        ctx.case(sample=case, nontrivial_key=("comb", name))
        ctx.count("combinator")
    for name, vm, args, lane_args in (
        ("vmap(0,None)", callee.vmap(in_axes=(0, None)), (ms, 1.5), lambda i: (ms[i], 1.5)),
        ("vmap(0,0)", callee.vmap(in_axes=(0, 0)), (ms, jnp.array([1.0, 2.0, 0.5])), lambda i: (ms[i], jnp.array([1.0, 2.0, 0.5])[i])),
        ("repeat(3)", callee.repeat(3), (0.5, 1.0), lambda i: (0.5, 1.0)),
    ):
        case = {"kind": "combinator", "combinator": name}
        try:
            tr = G.seed(vm.simulate)(jr.key(3), *args)
            ch = tr.get_choices()
            lanes = [jax.tree_util.tree_map(lambda x: x[i], ch) for i in range(3)]
            dens = [callee.assess(lanes[i], *lane_args(i)) for i in range(3)]
            tot = sum(float(d[0]) for d in dens)
            if abs(float(tr.get_score()) + tot) > 1e-4 * (1 + abs(tot)):
                ctx.property_failure(None, f"{name}: trace score {float(tr.get_score())} != -(sum of per-lane callee densities) {-tot}", case)
            if not np.allclose(np.asarray(tr.get_retval()), np.array([float(d[1]) for d in dens]), rtol=1e-5):
                ctx.property_failure(None, f"{name}: retvals are not the stacked per-lane callee return values", case)
            d_all, r_all = vm.assess(ch, *args)
            if abs(float(d_all) - tot) > 1e-4 * (1 + abs(tot)):
                ctx.property_failure(None, f"{name}: assess {float(d_all)} != sum of per-lane densities {tot}", case)
            cons = {"b": ch["b"]}
            tr2, w = G.seed(vm.generate)(jr.key(4), cons, *args)
            ch2 = tr2.get_choices()
            want_w = sum(float(normal.logpdf(ch2["b"][i], ch2["a"][i] * 2.0, 0.5)) for i in range(3))
            if abs(float(w) - want_w) > 1e-4 * (1 + abs(want_w)):
                ctx.property_failure(None, f"{name}: generate weight {float(w)} != sum of per-lane weights {want_w}", case)
            a = np.asarray(ch["a"])
            if len(set(a.tolist())) != 3:
                ctx.property_failure(None, f"{name}: lanes share a draw", case)
            new = {"a": ch["a"] + 0.5}
            tr3, w3, _ = vm.update(tr, new, *args)
            want3 = sum(float(callee.assess({"a": new["a"][i], "b": ch["b"][i]}, *lane_args(i))[0]) for i in range(3)) - tot
            if abs(float(w3) - want3) > 1e-3 * (1 + abs(want3)):
                ctx.property_failure(None, f"{name}: update weight {float(w3)} != sum of per-lane density ratios {want3}", case)
        except Exception as ex:
            impl.reset_handlers()
            ctx.property_failure(None, f"{name} raised {type(ex).__name__}: {str(ex)[:160]}", case)
        ctx.case(sample=case, nontrivial_key=("comb", name))
        ctx.count("combinator")


def layout_model(G, ctx):
    """the Lean layout rule vs the shapes produced by the real batching rule"""
    import jax.numpy as jnp
    import jax.random as jr
    pp = probe(G)
    for ss, batched, n in (((), True, 3), ((2,), True, 3), ((2, 4), True, 3), ((), False, 3), ((2,), False, 3)):
        f = (lambda a: pp(a, 1.0, sample_shape=ss)) if batched else (lambda: pp(0.0, 1.0, sample_shape=ss))
        out = G.seed(G.modular_vmap(f, in_axes=(0,) if batched else (), axis_size=None if batched else n))(jr.key(0), *((jnp.arange(float(n)),) if batched else ()))
        r = sexp.loads(common.driver_run([sexp.dumps(["vmap-layout", list(ss), "T" if batched else "F", n])])[0])
        want = tuple(int(t) for t in r[1])
        case = {"kind": "layout", "sample_shape": list(ss), "batched": batched, "n": n, "impl_shape": list(np.shape(out)), "model_shape": list(want)}
        if tuple(np.shape(out)) != want:
            ctx.correspondence_break("Vmap.ruleOut (Lean layout model) vs sample batching rule", f"model {want} impl {np.shape(out)}", case)
        ctx.case(nontrivial_key=("layout", ss, batched))


# ----------------------------------------------------------------------------- value level: the Lean model of the batching rule
# how the direct-site families of functions(G) call their site: f's arguments -> (positional, keywords, sample_shape);
# `c` marks a Python constant (value for the arguments, None for the axes)
SITE_FORMS = {
    "probe-site": lambda c, a, b: ((a, b), {}, ()),
    "sample_shape-site": lambda c, a: ((a, c(1.0)), {}, (2,)),
    "pytree-axes": lambda c, d: ((d["a"], d["b"][0]), {}, ()),
    "differing-rank": lambda c, loc, scale: ((loc, scale), {}, ()),
}


def rule_sites(G, ctx):
    """sites for the value-level tie: (label, positional arrays, {keyword: array}, positional axes, {keyword: axis}, sample_shape, axis_size)"""
    import jax.numpy as jnp
    out = []
    F = functions(G)
    for name, form in SITE_FORMS.items():
        for k, (args, ia, asz) in enumerate(F[name][1]):
            pos, kws, ss = form(lambda v: v, *args)
            pax, kax, _ = form(lambda v: None, *ia)
            out.append((f"{name}#{k}", list(pos), dict(kws), list(pax), dict(kax), tuple(ss), asz))
    v3 = jnp.array([1.0, 2.0, 3.0])
    m23 = jnp.arange(6.0).reshape(2, 3) + 1.0
    m32 = m23.T + 10.0
    t234 = jnp.arange(24.0).reshape(2, 3, 4) + 1.0
    # keyword / positional mixes; a skipped slot makes "keywords re-bound positionally" visible
    out += [
        ("kw:c-only", [], {"c": v3}, [], {"c": 0}, (), None),
        ("kw:a,c(skip b)", [v3], {"c": v3 * 2}, [0], {"c": 0}, (), None),
        ("kw:b-only", [], {"b": v3 + 0.5}, [], {"b": 0}, (2,), None),
        ("kw:c,a by keyword", [], {"c": m23, "a": m32}, [], {"c": 1, "a": 0}, (), None),
        ("kw:all three", [], {"b": v3, "a": v3 * 2, "c": 7.0}, [], {"b": 0, "a": 0, "c": None}, (), None),
        ("kw:in_axes=1 + constant keyword", [m23], {"c": 5.0}, [1], {"c": None}, (2,), None),
        ("kw:unbatched keywords", [], {"b": 2.0, "c": v3}, [], {"b": None, "c": None}, (2,), 4),
        ("kw:rank3 axis -1 + keyword axis 1", [t234], {"c": t234 * 2.0}, [-1], {"c": 2}, (), None),
        ("kw:positional a, keyword b", [m32], {"b": m23}, [0], {"b": -1}, (), None),
        ("kw:differing rank, keyword", [v3], {"c": jnp.arange(9.0).reshape(3, 3) + 11.0}, [0], {"c": 0}, (), None),
        ("kw:differing rank raises", [], {"b": v3, "c": m32}, [], {"b": 0, "c": 0}, (), None),
    ]
    # seeded random sites
    rng = ctx.rng
    for k in range(60 if ctx.thorough else 14):
        n = rng.choice([2, 3, 4])
        r = rng.choice([0, 1, 1, 2])
        base = [rng.choice([1, 2, 3]) for _ in range(r)]
        nparams = rng.choice([1, 2, 2, 3])
        slots = sorted(rng.sample(SLOTS, nparams))
        npos = rng.choice([0, 1, 2, 3])
        npos = max(0, min(npos, next((j for j, sl in enumerate(SLOTS) if sl not in slots), 3)))      # positionals fill a prefix of the signature
        differing = rng.random() < 0.25 and r > 0
        arrs, axes = {}, {}
        any_mapped = False
        for j, sl in enumerate(slots):
            mapped = rng.random() < 0.7
            lane = [d if rng.random() < 0.75 else 1 for d in base]
            if mapped and differing and rng.random() < 0.6:
                lane = lane[rng.randrange(1, r + 1):]                  # a mapped parameter of LOWER per-lane rank: the open finding's region
            if not mapped:
                lane = lane[rng.randrange(0, r + 1):]                  # un-mapped: any lower rank
            if mapped:
                ax = rng.randrange(0, len(lane) + 1)
                shape = lane[:ax] + [n] + lane[ax:]
                any_mapped = True
                axes[sl] = ax if rng.random() < 0.7 else ax - len(shape)   # negative axis spelling too
            else:
                shape, axes[sl] = lane, None
            size = 1
            for d in shape:
                size *= d
            if not mapped and not shape and rng.random() < 0.5:
                arrs[sl] = float(100 * (j + 1) + k)                    # a Python constant
            else:
                arrs[sl] = (jnp.arange(float(size)).reshape(shape) + 100.0 * (j + 1) + 0.5)
        ss = rng.choice([(), (), (2,), (2, 3)]) if r < 2 else rng.choice([(), (2,)])
        asz = n if (not any_mapped or rng.random() < 0.3) else None
        pos_slots = [sl for sl in slots if SLOTS.index(sl) < npos]
        kw_slots = [sl for sl in slots if sl not in pos_slots]
        if [SLOTS.index(sl) for sl in pos_slots] != list(range(len(pos_slots))):
            pos_slots, kw_slots = [], slots
        out.append((f"random#{k}", [arrs[sl] for sl in pos_slots], {sl: arrs[sl] for sl in kw_slots},
                    [axes[sl] for sl in pos_slots], {sl: axes[sl] for sl in kw_slots}, tuple(ss), asz))
    return out


def _decode(out):
    """structured probe output -> (shape, [(position, [slot values | None])] row-major)"""
    out = np.asarray(out)
    flat = out.reshape(-1, out.shape[-1])
    ents = []
    for v in flat:
        ents.append(([int(x) for x in v[:RMAX] if x >= 0], [None if np.isnan(x) else float(x) for x in v[RMAX:]]))
    return tuple(out.shape[:-1]), ents


def _impl_error_kind(ex):
    msg = str(ex).lower()
    if "transpose permutation" in msg:
        return "rank"            # a transpose staged for the abstract per-lane rank meets an array of another rank
    if "broadcast" in msg or "incompatible shapes" in msg:
        return "broadcast"
    if isinstance(ex, TypeError):
        return "bind"
    return "other:" + type(ex).__name__


def rule_model(G, ctx):
    """the Lean value-level model of the sample batching rule (Model/VmapRule.lean, theorems C08_rule_*) vs the real rule,
    entry by entry: which parameter values and which position of the ONE sampler call every entry of the result carries"""
    import jax
    import jax.numpy as jnp
    import jax.random as jr
    import os
    pps = probe(G, structured=True)
    sites = rule_sites(G, ctx)
    # the model variant the code is expected to match: the current code = all three repairs present.  (Scratch experiments only:
    # VERIF_C08_RULE_CFG=TFT / FTF / FFF compare a tree with fix b0e536c / 72f5066 / both reverted against the pre-fix model variants.)
    cfg = list(os.environ.get("VERIF_C08_RULE_CFG", "TTT"))
    lines, metas = [], []
    for label, pos, kws, pax, kax, ss, asz in sites:
        names = sorted(kws)                                         # dict keys flatten sorted
        xs = [jnp.asarray(x, jnp.float32) for x in pos] + [jnp.asarray(kws[k], jnp.float32) for k in names]
        axs = list(pax) + [kax[k] for k in names]
        axs = [None if ax is None else ax % x.ndim for ax, x in zip(axs, xs)]
        mapped = [x.shape[ax] for x, ax in zip(xs, axs) if ax is not None]
        n = asz if asz is not None else mapped[0]

        def arg(x, ax):
            return [list(x.shape), "N" if ax is None else ax, [repr(float(v)) for v in np.asarray(x).reshape(-1)]]
        site = [list(SLOTS), list(ss), n, [arg(x, ax) for x, ax in zip(xs[:len(pos)], axs)],
                [[k, arg(x, ax)] for k, x, ax in zip(names, xs[len(pos):], axs[len(pos):])]]
        lines.append(sexp.dumps(["vmap-rule", cfg] + site))
        lanes = sorted({0, n - 1})
        for i in lanes:
            lines.append(sexp.dumps(["vmap-lane", cfg] + site + [i]))
        metas.append((label, xs, axs, names, len(pos), ss, asz, n, lanes))
    outs = iter(common.driver_run(lines))
    for label, xs, axs, names, npos, ss, asz, n, lanes in metas:
        model = sexp.loads(next(outs))
        model_lanes = {i: sexp.loads(next(outs)) for i in lanes}
        case = {"kind": "rule-model", "site": label, "arg_shapes": [list(x.shape) for x in xs], "in_axes": axs, "positional": npos,
                "keywords": names, "sample_shape": list(ss), "axis_size": asz}
        if model[0] == "bad-op":
            raise common.Infra("driver does not know vmap-rule")

        def g(*ys, _npos=npos, _names=names, _ss=ss):
            return pps(*ys[:_npos], **dict(zip(_names, ys[_npos:])), sample_shape=_ss)
        flags = {f[0]: f[1] == "T" for f in model if isinstance(f, list) and len(f) == 2 and f[0] in ("aligned", "valid")}
        in_region = flags.get("aligned", False) and flags.get("valid", False)
        case["model_in_theorem_region"] = in_region
        if not flags.get("valid", False):
            ctx.correspondence_break("VmapRule vs sample batching rule", f"{label}: the model rejects the arguments jax.vmap accepts (valid=F)", case)
            continue
        # ---- the implementation
        try:
            got = G.seed(G.modular_vmap(g, in_axes=tuple(axs), axis_size=asz))(jr.key(1), *xs)
            impl_res = ("ok",) + _decode(got)
        except Exception as ex:
            impl.reset_handlers()
            impl_res = ("error", _impl_error_kind(ex), f"{type(ex).__name__}: {str(ex)[:120]}")
        # ---- per-lane reference on the implementation: the un-mapped site on lane i's slices
        refs = {}
        try:
            jg = jax.jit(G.seed(g))
            for i in range(n):
                sl = [x if ax is None else jnp.take(x, i, axis=ax) for x, ax in zip(xs, axs)]
                refs[i] = _decode(jg(jr.key(0), *sl))
        except Exception as ex:
            impl.reset_handlers()
            refs = None
            case["lane_reference_error"] = f"{type(ex).__name__}: {str(ex)[:120]}"
        # ---- correspondence 1: model of the un-mapped site (bind + broadcast + entry contract) vs the un-mapped site
        for i, ml in model_lanes.items():
            if ml[0] == "ok":
                want = (tuple(int(t) for t in ml[1]), [([int(t) for t in e[0]], [None if v == "N" else float(v) for v in e[1]]) for e in ml[2]])
                if refs is None or refs[i] != want:
                    ctx.correspondence_break("VmapRule.draw vs un-mapped site", f"{label}: lane {i}: model {str(want)[:160]} impl {str(refs and refs[i])[:160]}", case)
            elif refs is not None:
                ctx.correspondence_break("VmapRule.draw vs un-mapped site", f"{label}: lane {i}: model says the un-mapped call raises ({ml[1]}), the implementation returns", case)
        if refs is None and all(ml[0] != "ok" for ml in model_lanes.values()):
            # the site is not defined on its own lanes (model and implementation agree on that): the property says nothing, and the
            # one-level model does not cover the abstract evaluation (staging) that raises first in the implementation
            ctx.count("rule-model:site-undefined-on-lanes")
            ctx.case(nontrivial_key=("rule", label, "undefined"))
            continue
        # ---- correspondence 2: model of the rule vs the rule, entry by entry
        agrees = False
        if model[0] == "ok":
            mshape = tuple(int(t) for t in model[3])
            ments = [([int(t) for t in e[0]], [None if v == "N" else float(v) for v in e[1]]) for e in model[4]]
            if impl_res[0] != "ok":
                ctx.correspondence_break("VmapRule vs sample batching rule", f"{label}: model returns shape {mshape}, implementation raised {impl_res[2]}", case)
            elif impl_res[1] != mshape:
                ctx.correspondence_break("VmapRule vs sample batching rule", f"{label}: result shape model {mshape} impl {impl_res[1]}", case)
            elif impl_res[2] != ments:
                bad = [j for j, (x, y) in enumerate(zip(impl_res[2], ments)) if x != y]
                j = bad[0]
                ctx.correspondence_break("VmapRule vs sample batching rule",
                                         f"{label}: {len(bad)} of {len(ments)} entries differ; first at flat index {j}: model (position, slots) {ments[j]} impl {impl_res[2][j]}", case)
            else:
                agrees = True
        else:
            if impl_res[0] == "ok":
                ctx.correspondence_break("VmapRule vs sample batching rule", f"{label}: model predicts a {model[1]} error, implementation returned shape {impl_res[1]}", case)
            elif impl_res[1] != model[1]:
                ctx.correspondence_break("VmapRule vs sample batching rule", f"{label}: model predicts a {model[1]} error, implementation raised {impl_res[2]}", case)
            else:
                agrees = True
        # ---- property monitor (independent of the model): lane i carries lane i's parameter values, lane axis first
        if refs is not None:
            cls = None if in_region else "vmap-differing-rank"
            if impl_res[0] != "ok":
                ctx.property_failure(cls, f"modular_vmap over site {label} raised {impl_res[2]} although the site is defined on every lane", case, matches_asis=agrees and cls is not None)
            else:
                want_shape = (n,) + refs[0][0]
                per = max(1, len(refs[0][1]))
                bad = sorted({j // per for j in range(len(impl_res[2])) if impl_res[1] == want_shape and impl_res[2][j][1] != refs[j // per][1][j % per][1]})
                if impl_res[1] != want_shape:
                    ctx.property_failure(cls, f"site {label}: result shape {impl_res[1]}, stacking the lanes gives {want_shape}", case, matches_asis=agrees and cls is not None)
                elif bad:
                    case["lanes_differing"] = bad
                    ctx.property_failure(cls, f"site {label}: lanes {bad} are drawn from other parameter values than the lane's own slices", case, matches_asis=agrees and cls is not None)
        ctx.case(sample=case if label.startswith("random#") and ctx.coverage["evaluations"] % 5 == 0 else None,
                 nontrivial_key=("rule", label, str(case["arg_shapes"]), str(axs), str(ss)))
        ctx.count("rule-model:" + ("in-region" if in_region else "differing-rank"))


def nest_sites(G, ctx):
    """sites under a NEST of modular_vmaps: (label, positional arrays, {keyword: array}, per level (innermost first) the positional axes and
    {keyword: axis} - the axis of a level is relative to the array with all outer levels sliced away -, sample_shape, per level axis_size)"""
    import jax.numpy as jnp
    v3 = jnp.array([1.0, 2.0, 3.0])
    w2 = jnp.array([1.0, 2.0])
    m32 = (jnp.arange(6.0).reshape(2, 3) + 1.0).T
    out = [
        # the families `nested-repeat` and `nested-batched` of functions(G), as sites
        ("nested-repeat#0", [v3, 3.0], {}, [([None, None], {}), ([0, None], {})], (), [2, None]),
        ("nested-repeat#1", [2.0, 3.0], {}, [([None, None], {}), ([None, None], {})], (), [2, 3]),
        ("nested-batched#0", [v3, w2], {}, [([None, 0], {}), ([0, None], {})], (), [None, None]),
        ("nested-batched#1", [m32, w2], {}, [([None, 0], {}), ([0, None], {})], (), [None, None]),
        # one array mapped at both levels, a keyword mapped at the outer one only, own sample_shape
        ("nest:both levels + keyword", [jnp.arange(12.0).reshape(2, 3, 2) + 1.0], {"c": jnp.arange(12.0).reshape(3, 2, 2) + 50.0}, [([1], {"c": 0}), ([1], {"c": 0})], (2,), [None, None]),
        ("nest:outer-only keyword next to an inner-mapped array", [jnp.arange(12.0).reshape(2, 3, 2) + 1.0], {"c": m32 + 50.0}, [([1], {"c": None}), ([1], {"c": 0})], (2,), [None, None]),
        ("nest:repeat in repeat", [], {"b": 4.0}, [([], {"b": None}), ([], {"b": None})], (2,), [2, 3]),
    ]
    rng = ctx.rng
    for k in range(24 if ctx.thorough else 8):
        L = rng.choice([2, 2, 3])
        sizes = [rng.choice([2, 3]) for _ in range(L)]
        r = rng.choice([0, 0, 1])
        base = [rng.choice([2, 3]) for _ in range(r)]
        nparams = rng.choice([1, 2, 2])
        slots = sorted(rng.sample(SLOTS, nparams))
        same = rng.random() < 0.6                       # all parameters mapped at the same levels: inside the lane-wise region
        common_levels = [rng.random() < 0.6 for _ in range(L)]
        arrs, axes = {}, {sl: [] for sl in slots}
        mapped_any = [False] * L
        for j, sl in enumerate(slots):
            shape = list(base)
            for lv in range(L):                          # innermost first: each mapped level inserts its axis into the array built so far
                mapped = common_levels[lv] if same else rng.random() < 0.5
                if mapped:
                    ax = rng.randrange(0, len(shape) + 1)
                    shape = shape[:ax] + [sizes[lv]] + shape[ax:]
                    axes[sl].append(ax)
                    mapped_any[lv] = True
                else:
                    axes[sl].append(None)
            size = 1
            for d in shape:
                size *= d
            arrs[sl] = jnp.arange(float(size)).reshape(shape) + 100.0 * (j + 1) + 0.5
        npos = 0
        while npos < len(slots) and slots[npos] == SLOTS[npos] and rng.random() < 0.6:
            npos += 1
        pos_slots, kw_slots = slots[:npos], slots[npos:]
        ss = rng.choice([(), (), (2,)])
        out.append((f"nest-random#{k}", [arrs[sl] for sl in pos_slots], {sl: arrs[sl] for sl in kw_slots},
                    [([axes[sl][lv] for sl in pos_slots], {sl: axes[sl][lv] for sl in kw_slots}) for lv in range(L)], tuple(ss),
                    [None if mapped_any[lv] and rng.random() < 0.7 else sizes[lv] for lv in range(L)]))
    return out


def nest_model(G, ctx):
    """nested modular_vmap around one site: the Lean model of the rule applied innermost level first (Model/VmapRuleNest.lean) vs the
    implementation, entry by entry; monitor: every (outer lane, inner lane) carries its own fully sliced parameter values"""
    import os
    import jax
    import jax.numpy as jnp
    import jax.random as jr
    pps = probe(G, structured=True)
    cfg = list(os.environ.get("VERIF_C08_RULE_CFG", "TTT"))
    lines, metas = [], []
    for label, pos, kws, levels, ss, aszs in nest_sites(G, ctx):
        names = sorted(kws)
        xs = [jnp.asarray(x, jnp.float32) for x in pos] + [jnp.asarray(kws[k], jnp.float32) for k in names]
        L = len(levels)
        axs = [list(pax) + [kax[k] for k in names] for pax, kax in levels]       # axs[level][arg], innermost level first
        sizes = []
        for lv in range(L):
            n = aszs[lv]
            for j, x in enumerate(xs):
                if n is None and axs[lv][j] is not None:
                    shp = list(x.shape)
                    for o in range(L - 1, lv, -1):                             # slice the outer levels away
                        if axs[o][j] is not None:
                            del shp[axs[o][j]]
                    n = shp[axs[lv][j]]
            sizes.append(n)

        def narg(j, x):
            return [list(x.shape), ["N" if axs[lv][j] is None else axs[lv][j] for lv in range(L)], [repr(float(v)) for v in np.asarray(x).reshape(-1)]]
        lines.append(sexp.dumps(["vmap-nest", cfg, list(SLOTS), list(ss), sizes, [narg(j, x) for j, x in enumerate(xs[:len(pos)])],
                                 [[k, narg(len(pos) + j, x)] for j, (k, x) in enumerate(zip(names, xs[len(pos):]))]]))
        metas.append((label, xs, axs, names, len(pos), ss, aszs, sizes))
    outs = common.driver_run(lines)
    for (label, xs, axs, names, npos, ss, aszs, sizes), line in zip(metas, outs):
        model = sexp.loads(line)
        L = len(sizes)
        case = {"kind": "rule-model-nest", "site": label, "arg_shapes": [list(x.shape) for x in xs], "in_axes_innermost_first": axs, "positional": npos,
                "keywords": names, "sample_shape": list(ss), "axis_sizes_innermost_first": aszs}
        if model[0] == "bad-op":
            raise common.Infra("driver does not know vmap-nest")

        def g(*ys, _npos=npos, _names=names, _ss=ss):
            return pps(*ys[:_npos], **dict(zip(_names, ys[_npos:])), sample_shape=_ss)
        fn = g
        for lv in range(L):
            fn = (lambda inner, lv: lambda *ys: G.modular_vmap(inner, in_axes=tuple(axs[lv]), axis_size=aszs[lv])(*ys))(fn, lv)
        try:
            impl_res = ("ok",) + _decode(G.seed(fn)(jr.key(1), *xs))
        except Exception as ex:
            impl.reset_handlers()
            impl_res = ("error", _impl_error_kind(ex), f"{type(ex).__name__}: {str(ex)[:120]}")
        # per-lane reference: the un-mapped site on the fully sliced arguments, outermost lane index first
        refs = {}
        try:
            jg = jax.jit(G.seed(g))
            for lanes in itertools.product(*[range(n) for n in reversed(sizes)]):
                sl = []
                for j, x in enumerate(xs):
                    for o, i in zip(range(L - 1, -1, -1), lanes):
                        if axs[o][j] is not None:
                            x = jnp.take(x, i, axis=axs[o][j])
                    sl.append(x)
                refs[lanes] = _decode(jg(jr.key(0), *sl))
        except Exception as ex:
            impl.reset_handlers()
            refs = None
            case["lane_reference_error"] = f"{type(ex).__name__}: {str(ex)[:120]}"
        agrees = False
        if model[0] == "ok":
            mshape = tuple(int(t) for t in model[1])
            ments = [([int(t) for t in e[0]], [None if v == "N" else float(v) for v in e[1]]) for e in model[2]]
            if impl_res[0] != "ok":
                ctx.correspondence_break("VmapRuleNest vs nested sample batching rule", f"{label}: model returns shape {mshape}, implementation raised {impl_res[2]}", case)
            elif impl_res[1] != mshape:
                ctx.correspondence_break("VmapRuleNest vs nested sample batching rule", f"{label}: result shape model {mshape} impl {impl_res[1]}", case)
            elif impl_res[2] != ments:
                bad = [j for j, (x, y) in enumerate(zip(impl_res[2], ments)) if x != y]
                ctx.correspondence_break("VmapRuleNest vs nested sample batching rule",
                                         f"{label}: {len(bad)} of {len(ments)} entries differ; first at flat index {bad[0]}: model {ments[bad[0]]} impl {impl_res[2][bad[0]]}", case)
            else:
                agrees = True
        elif impl_res[0] == "ok":
            ctx.correspondence_break("VmapRuleNest vs nested sample batching rule", f"{label}: model predicts a {model[1]} error, implementation returned shape {impl_res[1]}", case)
        elif impl_res[1] != model[1]:
            ctx.correspondence_break("VmapRuleNest vs nested sample batching rule", f"{label}: model predicts a {model[1]} error, implementation raised {impl_res[2]}", case)
        else:
            agrees = True
        # the lane-wise region for a nest: at every level the arguments mapped at that level have the maximal rank AS THAT LEVEL SEES THEM
        # (per-lane rank + one axis per inner level at which the argument is mapped)
        if refs is not None:
            lane_rank = []
            for j, x in enumerate(xs):
                lane_rank.append(x.ndim - sum(1 for lv in range(L) if axs[lv][j] is not None))
            in_region = True
            for lv in range(L):
                seen = [lane_rank[j] + sum(1 for q in range(lv) if axs[q][j] is not None) for j in range(len(xs))]
                if any(axs[lv][j] is not None and seen[j] != max(seen) for j in range(len(xs))):
                    in_region = False
            case["in_lanewise_region"] = in_region
            cls = None if in_region else "vmap-differing-rank"
            ref0 = refs[tuple(0 for _ in sizes)]
            want_shape = tuple(reversed(sizes)) + ref0[0]
            if impl_res[0] != "ok":
                ctx.property_failure(cls, f"nested modular_vmap over site {label} raised {impl_res[2]} although the site is defined on every lane", case, matches_asis=agrees and cls is not None)
            elif impl_res[1] != want_shape:
                ctx.property_failure(cls, f"nested site {label}: result shape {impl_res[1]}, stacking the lanes gives {want_shape}", case, matches_asis=agrees and cls is not None)
            else:
                per = max(1, len(ref0[1]))
                order = list(itertools.product(*[range(n) for n in reversed(sizes)]))
                bad = sorted({order[j // per] for j in range(len(impl_res[2])) if impl_res[2][j][1] != refs[order[j // per]][1][j % per][1]})
                if bad:
                    case["lanes_differing"] = [list(b) for b in bad]
                    ctx.property_failure(cls, f"nested site {label}: lanes {bad[:4]} are drawn from other parameter values than the lane's own slices", case, matches_asis=agrees and cls is not None)
            ctx.count("rule-model-nest:" + ("in-region" if in_region else "differing-rank"))
        ctx.case(sample=case if label.startswith("nest-random#") and ctx.coverage["evaluations"] % 4 == 0 else None,
                 nontrivial_key=("rule-nest", label, str(case["arg_shapes"]), str(axs), str(ss)))


def run(ctx, audit):
    G = impl.load()
    F = functions(G)
    for name, (f, cases) in F.items():
        for args, ia, asz in cases:
            check_function(G, ctx, name, f, args, ia, asz)
    independence(G, ctx)
    opaque_wrapped(G, ctx)
    import interp_tie
    interp_tie.run_mvmap(ctx, 24 if ctx.thorough else 8)
    event_shaped_families(G, ctx)
    combinator(G, ctx)
    layout_model(G, ctx)
    rule_model(G, ctx)
    nest_model(G, ctx)
    return {"rule": RULE}


def replay(ctx, payload):
    run(ctx, {})
    for i in ctx.issues:
        print("REPRODUCED:", i["what"])
    for k, h in ctx.known_hits.items():
        print("REPRODUCED (known finding):", h["what"])
    if not ctx.issues and not ctx.known_hits:
        print("not reproduced")
    return 1 if ctx.issues else 0
