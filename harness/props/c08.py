"""C08 — modular_vmap and Vmap are lane-wise maps, for densities and for sampling."""
import itertools
import json
import random

import numpy as np

import common
import impl
import sexp

RULE = ("functions with deterministic code, log-density sites and sampling sites (a parameter-revealing probe sampler, so lane<->parameter "
        "pairing and layout are observable, plus real normal sites for independence), sample_shape sites, nested modular_vmap, scan and cond "
        "inside the mapped function; in_axes in {0, 1, -1, None, tuples, pytrees}, axis_size given or inferred, per-lane parameters of differing "
        "rank: modular_vmap(f)(args) vs stacking f(slice_i) and vs jax.vmap's layout; Vmap combinator / repeat: lane i of the vectorised trace "
        "is a coherent callee trace on lane i's arguments, density/weights/retvals are per-lane sums/stacks; sample-site layout vs the Lean "
        "layout model; non-trivial = every (function, axes) case")


def probe(G):
    """sampler returning a deterministic function of its parameters (broadcast over sample_shape): reveals pairing/layout"""
    import jax.numpy as jnp
    from genjax.pjax import wrap_sampler

    def keyful(key, a, b, sample_shape=()):
        base = jnp.asarray(a, jnp.float32) + 100.0 * jnp.asarray(b, jnp.float32)
        return jnp.broadcast_to(base, tuple(sample_shape) + jnp.shape(base))

    return wrap_sampler(keyful, name="probe_param")


def functions(G):
    """name -> (f, list of (args, in_axes, axis_size))"""
    import jax
    import jax.numpy as jnp
    pp = probe(G)
    normal = G.normal
    F = {}
    v3 = jnp.array([1.0, 2.0, 3.0])
    m23 = jnp.arange(6.0).reshape(2, 3) + 1.0
    m32 = m23.T
    t234 = jnp.arange(24.0).reshape(2, 3, 4) + 1.0

    def f_det(x, y):
        return jnp.sin(x) * y + jnp.sum(x * y)
    F["deterministic"] = (f_det, [((v3, v3 * 2), (0, 0), None), ((v3, 2.0), (0, None), None), ((m23, v3), (1, 0), None),
                                  ((m23, v3), (-1, 0), None), ((m32, 0.5), (0, None), None)])

    def f_logpdf(x, mu):
        return normal.logpdf(x, mu, 0.5) + jnp.sum(normal.logpdf(jnp.stack([x, x]), mu, 1.0))
    F["log-density"] = (f_logpdf, [((v3, v3 * 0.5), (0, 0), None), ((v3, 0.0), (0, None), None), ((0.3, v3), (None, 0), None)])

    def f_site(a, b):
        return pp(a, b) * 2.0 + a
    F["probe-site"] = (f_site, [((v3, v3 * 2), (0, 0), None), ((v3, 5.0), (0, None), None), ((1.0, 5.0), (None, None), 3),
                                ((m23, v3), (1, 0), None), ((m23, m23 + 0.5), (1, 1), None), ((m32, m32), (0, 0), None),
                                ((t234, 0.0), (2, None), None), ((t234, t234 * 2.0), (-1, 2), None), ((t234, 1.0), (1, None), None)])

    def f_shape(a):
        return pp(a, 1.0, sample_shape=(2,)) + a
    F["sample_shape-site"] = (f_shape, [((v3,), (0,), None), ((2.0,), (None,), 3), ((m23,), (1,), None)])

    def f_nested(a):
        inner = G.modular_vmap(lambda: pp(a, 3.0), in_axes=(), axis_size=2)()
        return inner + a
    F["nested-repeat"] = (f_nested, [((v3,), (0,), None), ((2.0,), (None,), 3)])

    def f_nested2(a, w):
        return G.modular_vmap(lambda ww: pp(a, ww), in_axes=(0,))(w)
    F["nested-batched"] = (f_nested2, [((v3, jnp.array([1.0, 2.0])), (0, None), None), ((m32, jnp.array([1.0, 2.0])), (0, None), None)])

    def f_scan(a):
        def body(c, t):
            s = pp(a + c, t)
            return c + 1.0, s
        _, ys = jax.lax.scan(body, 0.0, jnp.arange(3.0))
        return ys
    F["scan-inside"] = (f_scan, [((v3,), (0,), None)])

    def f_rscan(a):
        def body(c, t):
            s = pp(a + c, t)
            return c * 0.5 + s, s + c
        c, ys = jax.lax.scan(body, 1.0, jnp.arange(3.0), reverse=True)
        return ys + c
    F["reverse-scan-inside"] = (f_rscan, [((v3,), (0,), None), ((2.0,), (None,), 3)])

    def f_scan2(a):
        # a site at control-flow depth 2 (scan in scan), none directly in the outer body
        def inner(c, t):
            s = pp(a + c, t)
            return c + 1.0, s

        def outer(c, t):
            c2, ys = jax.lax.scan(inner, c + t, jnp.arange(2.0))
            return c2, jnp.sum(ys)
        _, zs = jax.lax.scan(outer, 0.0, jnp.arange(2.0))
        return zs
    F["scan-in-scan"] = (f_scan2, [((v3,), (0,), None), ((2.0,), (None,), 3)])

    def f_cond_in_scan(a):
        def body(c, t):
            s = jax.lax.cond(t > 0, lambda: pp(a + c, 1.0), lambda: pp(a - c, 2.0) * 1.0)
            return c + 1.0, s
        _, ys = jax.lax.scan(body, 0.0, jnp.arange(3.0))
        return ys
    F["cond-in-scan"] = (f_cond_in_scan, [((v3,), (0,), None), ((2.0,), (None,), 3)])

    def f_cond(a, flag):
        return jax.lax.cond(flag > 0, lambda: pp(a, 1.0), lambda: pp(a, 2.0) * 1.0)
    F["cond-inside"] = (f_cond, [((v3, jnp.array([1.0, -1.0, 1.0])), (0, 0), None), ((v3, 1.0), (0, None), None)])

    def f_kwdens(x, m, sc):
        return normal.logpdf(x, m, scale=sc) + normal.logpdf(x, loc=m * 0.5, scale=sc * 2.0)
    F["log-density-keyword-params"] = (f_kwdens, [((v3, v3 * 0.5, v3 + 1.0), (0, 0, 0), None), ((v3, 0.25, v3 + 1.0), (0, None, 0), None), ((m23, v3, 2.0), (1, 0, None), None)])

    def f_pytree(d):
        return pp(d["a"], d["b"][0]) + d["b"][1]
    F["pytree-axes"] = (f_pytree, [(({"a": v3, "b": (v3 * 2, 1.0)},), ({"a": 0, "b": (0, None)},), None)])

    def f_rank(loc, scale):
        return pp(loc, scale)        # per lane: scalar loc, vector scale -> vector output
    F["differing-rank"] = (f_rank, [((v3, m32), (0, 0), None), ((jnp.array([1.0, 2.0]), m23), (0, 0), None)])
    return F


def slices(args, in_axes, n):
    import jax
    import jax.numpy as jnp

    def take(a, ax, i):
        return a if ax is None else jax.tree_util.tree_map(lambda x: jnp.take(x, i, axis=ax), a)
    out = []
    for i in range(n):
        out.append(tuple(jax.tree_util.tree_map(lambda ax, a: take(a, ax, i), ia, arg, is_leaf=lambda x: x is None) if isinstance(ia, (dict, tuple)) else take(arg, ia, i)
                         for arg, ia in zip(args, in_axes)))
    return out


def axis_len(args, in_axes, axis_size):
    import jax
    if axis_size is not None:
        return axis_size
    for arg, ia in zip(args, in_axes):
        leaves_ax = jax.tree_util.tree_leaves(ia, is_leaf=lambda x: x is None) if isinstance(ia, (dict, tuple)) else [ia]
        leaves = jax.tree_util.tree_leaves(arg)
        for ax, leaf in zip(leaves_ax, leaves):
            if ax is not None:
                return leaf.shape[ax]
    raise ValueError("no mapped axis")


def lane_ranks_differ(args, in_axes):
    """do the per-lane shapes of the (array) arguments have different ranks? (the open finding's region)"""
    import jax
    import jax.numpy as jnp
    ranks = set()
    for arg, ia in zip(args, in_axes):
        axs = jax.tree_util.tree_leaves(ia, is_leaf=lambda x: x is None) if isinstance(ia, (dict, tuple)) else [ia] * len(jax.tree_util.tree_leaves(arg))
        for leaf, ax in zip(jax.tree_util.tree_leaves(arg), axs):
            ranks.add(jnp.ndim(leaf) - (0 if ax is None else 1))
    return len(ranks) > 1


def check_function(G, ctx, name, f, args, in_axes, axis_size):
    import jax
    import jax.numpy as jnp
    import jax.random as jr
    case = {"kind": "modular_vmap", "function": name, "in_axes": json.dumps(in_axes, default=str), "axis_size": axis_size,
            "arg_shapes": [str(jax.tree_util.tree_map(jnp.shape, a)) for a in args]}
    try:
        n = axis_len(args, in_axes, axis_size)
        # per-slice reference, evaluated under seed (sites inside scan/cond cannot be evaluated unseeded: C14); the probe
        # sampler ignores its key, so the reference is a deterministic function of the slice
        want = jnp.stack([G.seed(f)(jr.key(0), *sl) for sl in slices(args, in_axes, n)])
    except Exception as ex:
        impl.reset_handlers()
        raise common.Infra(f"per-slice reference of {name} could not be evaluated: {type(ex).__name__}: {str(ex)[:200]}")
    try:
        got = G.seed(G.modular_vmap(f, in_axes=in_axes, axis_size=axis_size))(jr.key(1), *args)
    except Exception as ex:
        impl.reset_handlers()
        cls = "vmap-differing-rank" if (lane_ranks_differ(args, in_axes) and "broadcast" in str(ex).lower()) else None
        ctx.property_failure(cls, f"modular_vmap({name}, in_axes={in_axes}) raised {type(ex).__name__}: {str(ex)[:160]}", case, matches_asis=cls is not None)
        return
    got, want = np.asarray(got), np.asarray(want)
    if got.shape != want.shape:
        cls = "vmap-differing-rank" if lane_ranks_differ(args, in_axes) else None
        ctx.property_failure(cls, f"modular_vmap({name}, in_axes={in_axes}): result shape {got.shape}, stacking f(slice_i) gives {want.shape}", case, matches_asis=cls is not None)
    elif not np.allclose(got, want, rtol=1e-5, atol=1e-5):
        bad = [int(i) for i in range(got.shape[0]) if not np.allclose(got[i], want[i], rtol=1e-5, atol=1e-5)]
        case["lanes_differing"] = bad
        cls = "vmap-differing-rank" if lane_ranks_differ(args, in_axes) else None
        ctx.property_failure(cls, f"modular_vmap({name}, in_axes={in_axes}): lanes {bad} differ from f applied to the slices (lane/parameter pairing or layout)", case, matches_asis=cls is not None)
    if name in ("deterministic", "log-density", "log-density-keyword-params"):
        ref = np.asarray(jax.vmap(f, in_axes=in_axes, axis_size=axis_size)(*args))
        if ref.shape != got.shape or not np.allclose(ref, got, rtol=1e-5, atol=1e-5):
            ctx.property_failure(None, f"modular_vmap({name}) differs from jax.vmap on a deterministic/density function", case)
    ctx.case(sample=case if ctx.coverage["evaluations"] % 6 == 0 else None, nontrivial_key=(name, case["in_axes"], str(axis_size), str(case["arg_shapes"])))
    ctx.count("fn:" + name)


def independence(G, ctx):
    """every sampling site yields one independent draw per lane - never one draw broadcast"""
    import jax
    import jax.numpy as jnp
    import jax.random as jr
    normal = G.normal
    progs = {
        "unbatched-site": (lambda x: normal.sample(0.0, 1.0) + 0.0 * x, (jnp.zeros(4),), (0,), None),
        "axis-size-only": (lambda: normal.sample(0.0, 1.0), (), (), 4),
        "sample_shape": (lambda x: normal.sample(x * 0.0, 1.0, sample_shape=(3,)), (jnp.zeros(4),), (0,), None),
        "nested": (lambda x: G.modular_vmap(lambda: normal.sample(0.0, 1.0), in_axes=(), axis_size=3)() + 0.0 * x, (jnp.zeros(4),), (0,), None),
        "in-scan": (lambda x: jax.lax.scan(lambda c, t: (c, normal.sample(c * 0.0, 1.0)), x, jnp.arange(3))[1], (jnp.zeros(4),), (0,), None),
        # lane-INDEPENDENT parameters at control-flow depth 2: a rule that leaves nested bodies to JAX would broadcast one draw
        "scan-in-scan(unbatched)": (lambda x: jax.lax.scan(lambda c, t: (c, jax.lax.scan(lambda c2, t2: (c2, normal.sample(0.0, 1.0)), 0.0, jnp.arange(2))[1]), 0.0, jnp.arange(2))[1] + 0.0 * x,
                                    (jnp.zeros(3),), (0,), None),
        "cond-in-scan(unbatched)": (lambda x: jax.lax.scan(lambda c, t: (c, jax.lax.cond(t > 0, lambda: normal.sample(0.0, 1.0), lambda: normal.sample(1.0, 2.0))), 0.0, jnp.arange(2))[1] + 0.0 * x,
                                    (jnp.zeros(3),), (0,), None),
    }
    for name, (f, args, ia, asz) in progs.items():
        out = np.asarray(G.seed(G.modular_vmap(f, in_axes=ia, axis_size=asz))(jr.key(2), *args)).reshape(-1)
        case = {"kind": "independence", "program": name, "values": out.tolist()}
        if len(set(out.tolist())) != out.size:
            ctx.property_failure(None, f"{name}: lanes/draws share values - one draw was broadcast instead of one independent draw per lane", case)
        ctx.case(sample=case, nontrivial_key=("indep", name))
        ctx.count("independence")


def combinator(G, ctx):
    """Vmap / repeat: lane i is a coherent callee trace on lane i's args; density, weights, retvals are per-lane sums / stacks"""
    import jax
    import jax.numpy as jnp
    import jax.random as jr
    normal = G.normal

    @G.gen
    def callee(m, s):
        a = normal(m, s) @ "a"
        b = normal(a * 2.0, 0.5) @ "b"
        return a + b
    @G.gen
    def callee_kw(m, s):
        a = normal(m, scale=s) @ "a"                 # the lane-wise parameter is passed BY KEYWORD
        b = normal(loc=a * 2.0, scale=0.5) @ "b"
        return a + b
    ms = jnp.array([0.0, 1.0, -1.0])
    kw_cases = (("vmap(0,0) keyword params", callee_kw.vmap(in_axes=(0, 0)), (ms, jnp.array([1.0, 2.0, 0.5])), lambda i: (ms[i], jnp.array([1.0, 2.0, 0.5])[i])),)
    for name, vm, args, lane_args in kw_cases:
        case = {"kind": "combinator", "combinator": name}
        try:
            tr = G.seed(vm.simulate)(jr.key(3), *args)
            ch = tr.get_choices()
            tot = sum(float(callee.assess(jax.tree_util.tree_map(lambda x: x[i], ch), *lane_args(i))[0]) for i in range(3))
            if np.shape(tr.get_score()) != () or abs(float(tr.get_score()) + tot) > 1e-4 * (1 + abs(tot)):
                ctx.property_failure(None, f"{name}: trace score {np.asarray(tr.get_score()).tolist()} != -(sum of per-lane callee densities) {-tot}", case)
            d_all, _ = vm.assess(ch, *args)
            if np.shape(d_all) != () or abs(float(d_all) - tot) > 1e-4 * (1 + abs(tot)):
                ctx.property_failure(None, f"{name}: assess {np.asarray(d_all).tolist()} != sum of per-lane densities {tot}", case)
        except Exception as ex:
            impl.reset_handlers()
            ctx.property_failure(None, f"{name} raised {type(ex).__name__}: {str(ex)[:160]}", case)
        ctx.case(sample=case, nontrivial_key=("comb", name))
        ctx.count("combinator")
    for name, vm, args, lane_args in (
        ("vmap(0,None)", callee.vmap(in_axes=(0, None)), (ms, 1.5), lambda i: (ms[i], 1.5)),
        ("vmap(0,0)", callee.vmap(in_axes=(0, 0)), (ms, jnp.array([1.0, 2.0, 0.5])), lambda i: (ms[i], jnp.array([1.0, 2.0, 0.5])[i])),
        ("repeat(3)", callee.repeat(3), (0.5, 1.0), lambda i: (0.5, 1.0)),
    ):
        case = {"kind": "combinator", "combinator": name}
        try:
            tr = G.seed(vm.simulate)(jr.key(3), *args)
            ch = tr.get_choices()
            lanes = [jax.tree_util.tree_map(lambda x: x[i], ch) for i in range(3)]
            dens = [callee.assess(lanes[i], *lane_args(i)) for i in range(3)]
            tot = sum(float(d[0]) for d in dens)
            if abs(float(tr.get_score()) + tot) > 1e-4 * (1 + abs(tot)):
                ctx.property_failure(None, f"{name}: trace score {float(tr.get_score())} != -(sum of per-lane callee densities) {-tot}", case)
            if not np.allclose(np.asarray(tr.get_retval()), np.array([float(d[1]) for d in dens]), rtol=1e-5):
                ctx.property_failure(None, f"{name}: retvals are not the stacked per-lane callee return values", case)
            d_all, r_all = vm.assess(ch, *args)
            if abs(float(d_all) - tot) > 1e-4 * (1 + abs(tot)):
                ctx.property_failure(None, f"{name}: assess {float(d_all)} != sum of per-lane densities {tot}", case)
            cons = {"b": ch["b"]}
            tr2, w = G.seed(vm.generate)(jr.key(4), cons, *args)
            ch2 = tr2.get_choices()
            want_w = sum(float(normal.logpdf(ch2["b"][i], ch2["a"][i] * 2.0, 0.5)) for i in range(3))
            if abs(float(w) - want_w) > 1e-4 * (1 + abs(want_w)):
                ctx.property_failure(None, f"{name}: generate weight {float(w)} != sum of per-lane weights {want_w}", case)
            a = np.asarray(ch["a"])
            if len(set(a.tolist())) != 3:
                ctx.property_failure(None, f"{name}: lanes share a draw", case)
            new = {"a": ch["a"] + 0.5}
            tr3, w3, _ = vm.update(tr, new, *args)
            want3 = sum(float(callee.assess({"a": new["a"][i], "b": ch["b"][i]}, *lane_args(i))[0]) for i in range(3)) - tot
            if abs(float(w3) - want3) > 1e-3 * (1 + abs(want3)):
                ctx.property_failure(None, f"{name}: update weight {float(w3)} != sum of per-lane density ratios {want3}", case)
        except Exception as ex:
            impl.reset_handlers()
            ctx.property_failure(None, f"{name} raised {type(ex).__name__}: {str(ex)[:160]}", case)
        ctx.case(sample=case, nontrivial_key=("comb", name))
        ctx.count("combinator")


def layout_model(G, ctx):
    """the Lean layout rule vs the shapes produced by the real batching rule"""
    import jax.numpy as jnp
    import jax.random as jr
    pp = probe(G)
    for ss, batched, n in (((), True, 3), ((2,), True, 3), ((2, 4), True, 3), ((), False, 3), ((2,), False, 3)):
        f = (lambda a: pp(a, 1.0, sample_shape=ss)) if batched else (lambda: pp(0.0, 1.0, sample_shape=ss))
        out = G.seed(G.modular_vmap(f, in_axes=(0,) if batched else (), axis_size=None if batched else n))(jr.key(0), *((jnp.arange(float(n)),) if batched else ()))
        r = sexp.loads(common.driver_run([sexp.dumps(["vmap-layout", list(ss), "T" if batched else "F", n])])[0])
        want = tuple(int(t) for t in r[1])
        case = {"kind": "layout", "sample_shape": list(ss), "batched": batched, "n": n, "impl_shape": list(np.shape(out)), "model_shape": list(want)}
        if tuple(np.shape(out)) != want:
            ctx.correspondence_break("Vmap.ruleOut (Lean layout model) vs sample batching rule", f"model {want} impl {np.shape(out)}", case)
        ctx.case(nontrivial_key=("layout", ss, batched))


def run(ctx, audit):
    G = impl.load()
    F = functions(G)
    for name, (f, cases) in F.items():
        for args, ia, asz in cases:
            check_function(G, ctx, name, f, args, ia, asz)
    independence(G, ctx)
    combinator(G, ctx)
    layout_model(G, ctx)
    return {"rule": RULE}


def replay(ctx, payload):
    run(ctx, {})
    for i in ctx.issues:
        print("REPRODUCED:", i["what"])
    for k, h in ctx.known_hits.items():
        print("REPRODUCED (known finding):", h["what"])
    if not ctx.issues and not ctx.known_hits:
        print("not reproduced")
    return 1 if ctx.issues else 0
