"""C06 — a seeded function is a pure, transform-stable function of key and arguments."""
import json
import random

import numpy as np

import common
import impl
import seedcache
import seedprog

RULE = ("random seeded programs (sample sites, vectorised sites, lax.cond, lax.scan, nesting depth<=2/3) with a key-revealing probe sampler: "
        "seed(f)(key,args) run fresh, after unseeded sampling (global counter advanced), after other seeded programs (staging caches primed), "
        "under jit, vmap over keys and jit(vmap); every run compared bit-for-bit with the key paths of the Lean model evaluated with "
        "jax.random; keyword-argument and long-lived-binder scenarios; staging caches (seedcache.py): call histories over one long-lived sampler "
        "whose calls differ only in keyword names / weak vs strong scalar type / shape / static data / pytree structure, eager-jit-vmap-jit(vmap), "
        "long-lived and fresh function objects, unseeded calls interleaved; every seeded result compared with the first call of a fresh "
        "sampler+function and with the cache-sharing prediction of the Lean model (driver command seedcache); "
        "non-trivial = program with a cond or scan / history over two or more forms; distinct by program text / history")


def same(a, b):
    return set(a) == set(b) and all(np.array_equal(a[k], b[k]) for k in a)


def check_prog(G, ctx, prog, key_int, history_rng):
    import jax
    import jax.numpy as jnp
    import jax.random as jr
    f = seedprog.build(G, prog)
    key = jr.key(key_int)
    p = jnp.float32(0.5)
    case = {"kind": "seed-purity", "prog": json.dumps(prog), "key": key_int}
    want = seedprog.expected_outputs(prog, key)
    runs = {}
    try:
        runs["fresh"], ok_v = seedprog.observed_outputs(prog, G.seed(f)(key, p))
        # advance the process-global counter of the unseeded path, prime caches with other programs
        for _ in range(history_rng.randint(1, 4)):
            G.normal.sample(0.0, 1.0)
        other = seedprog.gen_prog(history_rng, 1)
        G.seed(seedprog.build(G, other))(jr.key(key_int + 99), p)
        runs["after-history"], _ = seedprog.observed_outputs(prog, G.seed(f)(key, p))
        runs["jit"], _ = seedprog.observed_outputs(prog, jax.jit(G.seed(f))(key, p))
        keys = jnp.stack([jr.key_data(jr.key(key_int + 7)), jr.key_data(key), jr.key_data(jr.key(key_int + 8))])
        keys = jr.wrap_key_data(keys)
        vo = jax.vmap(G.seed(f), in_axes=(0, None))(keys, p)
        runs["vmap-keys"], _ = seedprog.observed_outputs(prog, [np.asarray(o)[1] for o in vo])
        jvo = jax.jit(jax.vmap(G.seed(f), in_axes=(0, None)))(keys, p)
        runs["jit-vmap"], _ = seedprog.observed_outputs(prog, [np.asarray(o)[1] for o in jvo])
        other_key, _ = seedprog.observed_outputs(prog, [np.asarray(o)[0] for o in vo])
    except Exception as ex:
        ctx.property_failure(None, f"seed(f) raised {type(ex).__name__}: {str(ex)[:160]}", case)
        return
    if not ok_v:
        ctx.property_failure(None, "lanes of a vectorised site were not derived from one key with an extended sample_shape", case)
    for name, obs in runs.items():
        if not same(obs, runs["fresh"]):
            ctx.property_failure(None, f"seed(f)(key,args) differs between the fresh run and the '{name}' run", {**case, "mode": name})
    if runs["fresh"] and same(other_key, runs["fresh"]):
        ctx.property_failure(None, "distinct keys gave identical draws", case)
    if not same(runs["fresh"], want):
        bad = sorted(k for k in want if k not in runs["fresh"] or not np.array_equal(want[k], runs["fresh"][k]))
        case["sites_with_unexpected_keys"] = [str(b) for b in bad[:6]]
        ctx.correspondence_break("Seed.siteKeys (Lean) + jax.random vs keys observed through the probe sampler",
                                 f"{len(bad)} site(s) received another key than the model's path", case)
    ctx.case(sample=case if ctx.coverage["evaluations"] % 9 == 0 else None,
             nontrivial_key=json.dumps(prog) if any(s[0] in ("cond", "scan") for s in prog) else None)
    ctx.count("sites:%d" % len(want))


def kwargs_and_binders(G, ctx):
    """keyword arguments through seed; a long-lived user distribution called with two keyword forms"""
    import jax
    import jax.numpy as jnp
    import jax.random as jr
    from genjax.pjax import sample_binder
    normal = G.normal

    def f(x, scale=1.0):
        return normal.sample(x, scale) + normal.sample(0.0, 1.0)

    k = jr.key(5)
    a = float(G.seed(f)(k, 1.0, scale=2.0))
    for _ in range(3):
        normal.sample(0.0, 1.0)
    b = float(G.seed(f)(k, 1.0, scale=2.0))
    c = float(jax.jit(lambda kk, x, s: G.seed(f)(kk, x, scale=s))(k, 1.0, 2.0))
    if a != b or abs(a - c) > 1e-6:
        ctx.property_failure(None, f"seed(f)(key, x, scale=..) is not reproducible ({a}, {b}, jit {c})", {"kind": "kwargs"})
    ctx.case(sample={"kind": "kwargs"}, nontrivial_key="kwargs")

    # one binder, two keyword forms (e.g. probs= / logits= of a user distribution)
    def keyful(key, lo=None, hi=None, sample_shape=()):
        base = jax.random.uniform(key, sample_shape)
        return base + (100.0 if lo is not None else 0.0) + (lo if lo is not None else hi)

    binder = sample_binder(keyful, name="twoforms")

    def make(form):
        return (lambda v: binder(lo=v)) if form == "lo" else (lambda v: binder(hi=v))

    k2 = jr.key(11)
    first_hi = float(G.seed(make("hi"))(k2, 1.0))
    G.seed(make("lo"))(k2, 1.0)            # interleaved use of the other keyword form
    again_hi = float(G.seed(make("hi"))(k2, 1.0))
    first_lo = float(G.seed(make("lo"))(k2, 1.0))
    case = {"kind": "two-keyword-forms", "hi_first": first_hi, "hi_again": again_hi, "lo": first_lo}
    if first_hi != again_hi or not (first_lo >= 100.0 > first_hi):
        ctx.property_failure(None, "a seeded call depends on which keyword form of the same sampler was staged before it", case)
    ctx.case(sample=case, nontrivial_key="two-forms")


def argument_kinds(G, ctx):
    """transform stability for every KIND of argument: Python scalars (weakly typed), committed arrays, reduced-precision and
    narrow-integer bodies where weak-vs-strong typing changes dtype promotion, pytrees, static structure.  Each function is run
    eagerly, under jit, under vmap over keys and under jit(vmap): identical dtype and the same draw (to rounding of compiled arithmetic) are required."""
    import jax
    import jax.numpy as jnp
    import jax.random as jr
    import numpy as np
    normal, uniform = G.normal, G.uniform

    def f16(x):      # float16 parameters: f16 * weak-float stays f16, f16 * f32 becomes f32
        loc = jnp.asarray(0.5, jnp.float16) * x
        return normal.sample(loc, jnp.asarray(1.0, jnp.float16))

    def u8(x):       # uint8(200) + 100 wraps to 44 when the 100 is weakly typed, is 300 when it is int32
        n = jnp.asarray(200, jnp.uint8) + x
        return normal.sample(n.astype(jnp.float32), 0.01)

    def bf16(x):
        return uniform.sample(jnp.asarray(0.0, jnp.bfloat16), jnp.asarray(2.0, jnp.bfloat16) * x)

    def tree(d):     # pytree argument mixing a Python float and an array
        return normal.sample(d["m"] * d["w"][0], 1.0) + d["w"][1]

    def f32(x):
        return normal.sample(x * 2.0, 1.0)

    fams = [("float16-params/python-float", f16, 0.7), ("uint8-arithmetic/python-int", u8, 100), ("bfloat16-params/python-float", bf16, 1.5),
            ("float16-params/f16-array", f16, jnp.asarray(0.7, jnp.float16)), ("pytree/python-float+array", tree, {"m": 0.5, "w": (jnp.float32(2.0), 1)}),
            ("float32/python-float", f32, 0.25), ("float32/python-bool", f32, True)]
    keys = jr.split(jr.key(21), 3)
    for name, f, arg in fams:
        case = {"kind": "argument-kinds", "family": name}
        try:
            s = G.seed(f)
            ax = jax.tree_util.tree_map(lambda _: None, arg)
            outs = {
                "eager": s(keys[0], arg),
                "jit": jax.jit(s)(keys[0], arg),
                "vmap-keys": jax.tree_util.tree_map(lambda a: a[0], jax.vmap(s, in_axes=(0, ax))(keys, arg)),
                "jit(vmap)": jax.tree_util.tree_map(lambda a: a[0], jax.jit(jax.vmap(s, in_axes=(0, ax)))(keys, arg)),
                "eager-again": s(keys[0], arg),
            }
        except Exception as e:
            impl.reset_handlers()
            ctx.property_failure(None, f"{name}: a seeded call raised {type(e).__name__}: {str(e)[:150]}", case)
            continue
        ref = np.asarray(outs["eager"])
        for mode, o in outs.items():
            o = np.asarray(o)
            # same dtype, same draw (compiled arithmetic may differ from eager arithmetic in the last bit: XLA fuses multiply-adds)
            if o.dtype != ref.dtype or not np.allclose(o.astype(np.float64), ref.astype(np.float64), rtol=2e-3 if ref.dtype.itemsize <= 2 else 1e-5, atol=0):
                case.update({"mode": mode, "eager": [str(ref.dtype), ref.tolist()], "other": [str(o.dtype), o.tolist()]})
                ctx.property_failure(None, f"{name}: seed(f)(key, arg) gives {ref.tolist()} ({ref.dtype}) eagerly but {o.tolist()} ({o.dtype}) under {mode}", case)
                break
        ctx.case(sample=case if name.startswith("uint8") else None, nontrivial_key=("argkind", name))
        ctx.count("argument-kinds")


def adev_sites(G, ctx):
    """ADEV estimator sites (they bind adev_sample_p, not sample_p) inside a seeded function are sample sites like any other:
    the result is a function of the key (different keys -> different draws, same key -> same draw), stable under jit / vmap."""
    import jax
    import jax.numpy as jnp
    import jax.random as jr
    import numpy as np
    from genjax.adev import flip_enum, normal_reparam, normal_reinforce
    normal = G.normal

    @G.gen
    def guide(m):
        z = normal_reparam(m, 1.0) @ "z"
        w = normal_reinforce(z, 0.5) @ "w"
        return z + w

    progs = {
        "normal_reparam.sample": (lambda m: normal_reparam.sample(m, 1.0) + normal.sample(0.0, 1.0), 0.25),
        "gen fn with ADEV sites (simulate)": (lambda m: guide.simulate(m).get_retval(), 0.25),
    }
    keys = jr.split(jr.key(ctx.seed + 77), 4)
    for name, (f, arg) in progs.items():
        case = {"kind": "adev-sites-under-seed", "program": name}
        try:
            s_ = G.seed(f)
            outs = [float(s_(k, arg)) for k in keys]
            again = float(s_(keys[0], arg))
            normal.sample(0.0, 1.0)            # advance the global counter, prime caches
            later = float(G.seed(f)(keys[0], arg))
            jit0 = float(jax.jit(s_)(keys[0], arg))
            vm = np.asarray(jax.vmap(s_, in_axes=(0, None))(keys, arg))
            if len(set(outs)) != len(outs):
                ctx.property_failure(None, f"{name}: seeded runs with different keys return equal values {outs} (the site ignores the key)", {**case, "values": outs})
            elif outs[0] != again or outs[0] != later:
                ctx.property_failure(None, f"{name}: the same key gives {outs[0]}, {again}, {later} (depends on call history)", case)
            elif abs(jit0 - outs[0]) > 1e-5 or not np.allclose(vm, np.array(outs), rtol=1e-5, atol=1e-6):
                ctx.property_failure(None, f"{name}: jit / vmap over keys differ from the eager seeded runs", {**case, "eager": outs, "jit": jit0, "vmap": vm.tolist()})
        except Exception as e:
            impl.reset_handlers()
            ctx.property_failure(None, f"{name}: a seeded call raised {type(e).__name__}: {str(e)[:150]}", case)
        ctx.case(sample=case, nontrivial_key=("adev-site", name))
        ctx.count("adev-sites-under-seed")


def wrapped_sites(G, ctx):
    """a site nested at depth 1..3 inside primitives the Seed interpreter re-binds unchanged (jax.checkpoint, custom_jvp): the seeded
    function must behave the SAME eagerly and under jit - both refuse, or both return a value that depends on the key and is equal in
    the two modes.  "Eager returns a draw that ignores the key while jit raises" is the failure (seeded C06_8 / C14_8)."""
    import jax
    import jax.numpy as jnp
    import jax.random as jr
    normal = G.normal

    def site(x):
        return normal.sample(x, 1.0)

    def ck(f):
        return jax.checkpoint(f)

    def cj(f):
        g = jax.custom_jvp(f)
        g.defjvp(lambda p, t: (f(*p), t[0]))
        return g
    progs = {
        "checkpoint(site)": ck(site),
        "checkpoint(checkpoint(site))": ck(ck(site)),
        "checkpoint(checkpoint(checkpoint(site)))": ck(ck(ck(site))),
        "checkpoint(custom_jvp(site))": ck(cj(site)),
        "checkpoint(lambda: custom_jvp(site) + site)": ck(lambda x: cj(site)(x) + site(x)),
        "plain site (control)": site,
    }
    keys = [jr.key(ctx.seed + 5), jr.key(ctx.seed + 6), jr.key(ctx.seed + 7)]
    for name, f in progs.items():
        case = {"kind": "wrapped-sites", "program": name}
        s_ = G.seed(lambda x, f=f: f(x) * 2.0)

        def attempt(call):
            try:
                return ("value", [float(call(k, 0.25)) for k in keys])
            except Exception as e:
                impl.reset_handlers()
                return ("raises", type(e).__name__)
        eager, jitted = attempt(s_), attempt(jax.jit(s_))
        if eager[0] != jitted[0]:
            ctx.property_failure(None, f"{name}: eager seed(f) {eager} but jit(seed(f)) {jitted} - the two execution modes disagree", {**case, "eager": list(eager), "jit": list(jitted)})
        elif eager[0] == "value":
            if len(set(eager[1])) != len(keys):
                ctx.property_failure(None, f"{name}: seeded runs with different keys return equal values {eager[1]} (the site ignores the key)", {**case, "values": eager[1]})
            elif max(abs(a - b) for a, b in zip(eager[1], jitted[1])) > 1e-5:
                ctx.property_failure(None, f"{name}: eager {eager[1]} != jit {jitted[1]}", case)
        ctx.case(sample=case if "custom" in name else None, nontrivial_key=("wrapped-sites", name))
        ctx.count("wrapped-sites:" + eager[0])


def cache_histories(G, ctx, family, shard_i):
    """the staging caches observed through call histories over one long-lived sampler (harness/seedcache.py; Lean Model/SeedCache.lean)"""
    seedcache.check_family(G, ctx, family, random.Random(ctx.seed * 7919 + shard_i), 10 if ctx.thorough else 3)


def shard(ctx, shard_i, n):
    G = impl.load()
    rng = random.Random(ctx.seed * 977 + shard_i)
    hist = random.Random(ctx.seed * 13 + shard_i)
    if shard_i == 1:
        argument_kinds(G, ctx)
    if shard_i == 2:
        adev_sites(G, ctx)
        wrapped_sites(G, ctx)
    if 3 <= shard_i < 3 + seedcache.N_FAMILIES:
        cache_histories(G, ctx, shard_i - 3, shard_i)
    if shard_i == 0:
        kwargs_and_binders(G, ctx)
        check_prog(G, ctx, [("site", 1), ("vsite", 2, 3), ("scan", [("site", 3)], 2), ("site", 4)], 42, hist)
        check_prog(G, ctx, [("cond", True, [("site", 1), ("site", 2)]), ("site", 3), ("scan", [("cond", False, [("site", 4)]), ("site", 5)], 3)], 43, hist)
    for i in range(n):
        prog = seedprog.gen_prog(rng, rng.choice([1, 2, 2, 3] if ctx.thorough else [1, 2, 2]))
        check_prog(G, ctx, prog, ctx.seed * 1000 + shard_i * 50 + i, hist)


def run(ctx, audit):
    ns, per = (14, 14) if ctx.thorough else (12, 3)
    common.run_sharded(ctx, "props.c06", "shard", [(i, per) for i in range(ns)])
    return {"rule": RULE}


def replay(ctx, payload):
    G = impl.load()
    c = payload.get("case") or {}
    if c.get("kind") == "seed-purity":
        def tup(x):
            return [tuple(tup(z) if isinstance(z, list) else z for z in y) for y in x]
        check_prog(G, ctx, tup(json.loads(c["prog"])), c["key"], random.Random(1))
    elif c.get("kind") == "argument-kinds":
        argument_kinds(G, ctx)
    elif c.get("kind") == "adev-sites-under-seed":
        adev_sites(G, ctx)
    elif c.get("kind") == "wrapped-sites":
        wrapped_sites(G, ctx)
    elif c.get("kind") == "cache-history":
        seedcache.replay_case(G, ctx, c)
    else:
        kwargs_and_binders(G, ctx)
    for i in ctx.issues:
        print("REPRODUCED:", i["what"])
    for i in ctx.corr_breaks:
        print("CORRESPONDENCE:", i["what"])
    for k, h in ctx.known_hits.items():
        print("REPRODUCED (known finding):", h["what"])
    if not ctx.issues and not ctx.corr_breaks and not ctx.known_hits:
        print("not reproduced")
    return 1 if ctx.issues else 0
