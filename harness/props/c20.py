"""C20 — the exact state-space baselines are exact."""
import itertools
import math
from fractions import Fraction as Fr

import numpy as np

import common
import impl
import sexp

RULE = ("rational HMMs (K,M in 1..4, T in 1..5, sparse matrices, deterministic starts; observation sequences of positive probability): "
        "forward_filter / compute_sequence_log_prob / iterated discrete_hmm step model vs float64 brute-force enumeration and vs the exact "
        "rational Lean model; backward_sample law by chi-square over seeded draws; linear-Gaussian models with d_state,d_obs in 1..3 "
        "(d_obs != d_state included), T in 1..5: kalman_filter / kalman_smoother / iterated linear_gaussian step model vs conditioning "
        "the dense joint Gaussian in float64; scalar Kalman vs the Lean model; non-trivial = T>=2 and K>=2 (HMM) or T>=2 (Kalman)")


# ------------------------------------------------------------------ HMM
def rand_stochastic(rng, rows, cols, sparse):
    out = []
    for _ in range(rows):
        w = [rng.choice([0, 0, 1, 2, 3] if sparse else [1, 2, 3, 5]) for _ in range(cols)]
        if sum(w) == 0:
            w[rng.randrange(cols)] = 1
        s = sum(w)
        out.append([Fr(x, s) for x in w])
    return out


def brute_hmm(init, trans, emis, obs):
    K, T = len(init), len(obs)
    tot = 0.0
    last = np.zeros(K)
    for ss in itertools.product(range(K), repeat=T):
        p = float(init[ss[0]] * emis[ss[0]][obs[0]])
        for t in range(1, T):
            p *= float(trans[ss[t - 1]][ss[t]] * emis[ss[t]][obs[t]])
        tot += p
        last[ss[-1]] += p
    return tot, last


def joint_hmm(init, trans, emis, ss, obs):
    p = init[ss[0]] * emis[ss[0]][obs[0]]
    for t in range(1, len(obs)):
        p *= trans[ss[t - 1]][ss[t]] * emis[ss[t]][obs[t]]
    return p


def hmm_case(G, ctx, rng, K, M, T, sparse):
    import jax.numpy as jnp
    from genjax.extras.state_space import compute_sequence_log_prob, discrete_hmm, forward_filter
    for _ in range(20):
        init = rand_stochastic(rng, 1, K, sparse)[0]
        if sparse and rng.random() < 0.4:
            init = [Fr(1) if i == 0 else Fr(0) for i in range(K)]
        trans = rand_stochastic(rng, K, K, sparse)
        emis = rand_stochastic(rng, K, M, sparse)
        obs = [rng.randrange(M) for _ in range(T)]
        tot, last = brute_hmm(init, trans, emis, obs)
        if tot > 0:
            break
    else:
        return
    f = lambda m: jnp.asarray(np.array(m, dtype=np.float64), dtype=jnp.float32)
    case = {"kind": "hmm", "init": [str(x) for x in init], "trans": [[str(x) for x in r] for r in trans],
            "emis": [[str(x) for x in r] for r in emis], "obs": obs}
    try:
        alpha, lm = forward_filter(jnp.asarray(obs), f(init), f(trans), f(emis))
    except Exception as ex:
        ctx.property_failure(None, f"forward_filter raised {type(ex).__name__}: {str(ex)[:120]}", case)
        return
    alpha = np.asarray(alpha, dtype=np.float64)
    case["impl_log_marginal"] = float(lm)
    if not (abs(math.exp(float(lm)) - tot) <= 2e-4 * tot + 1e-12) or math.isnan(float(lm)):
        ctx.property_failure(None, f"forward_filter log marginal {float(lm)} != log of brute-force sum {math.log(tot)}", case)
    want_last = last / tot
    if alpha.shape != (T, K) or not np.allclose(np.exp(alpha[-1]), want_last, atol=2e-4):
        ctx.property_failure(None, f"last filtering distribution {np.exp(alpha[-1]).tolist()} != brute force {want_last.tolist()}", case)
    # prefix filtering distributions: alpha[t] is the filter given obs[:t+1]
    for t in range(T - 1):
        tt, ll = brute_hmm(init, trans, emis, obs[: t + 1])
        if tt > 0 and not np.allclose(np.exp(alpha[t]), ll / tt, atol=2e-4):
            ctx.property_failure(None, f"filtering distribution at t={t} differs from brute force", case)
            break
    # Lean model (exact rationals)
    ss = [rng.randrange(K) for _ in range(T)]
    line = sexp.dumps(["hmm", init, trans, emis, obs, ss])
    r = sexp.loads(common.driver_run([line])[0])
    m_marg, m_brute = Fr(r[1]), Fr(r[2])
    if m_marg != m_brute or abs(float(m_marg) - tot) > 1e-9:
        ctx.correspondence_break("Hmm.marginal vs Hmm.brute vs python brute force", f"{m_marg} {m_brute} {tot}", case)
    if abs(math.exp(float(lm)) - float(m_marg)) > 2e-4 * float(m_marg) + 1e-12:
        ctx.correspondence_break("Hmm.forward vs forward_filter", f"model {float(m_marg)} impl {math.exp(float(lm))}", case)
    m_filt = np.array([[float(Fr(x)) for x in row] for row in r[3]])
    if m_filt.shape == alpha.shape and not np.allclose(np.exp(alpha), m_filt, atol=2e-4):
        ctx.correspondence_break("Hmm.forward (normalised) vs forward_filter", "filtering distributions differ", case)
    # sequence log prob + iterated step model
    jp = joint_hmm(init, trans, emis, ss, obs)
    if jp > 0:
        lp = float(compute_sequence_log_prob(jnp.asarray(ss), jnp.asarray(obs), f(init), f(trans), f(emis)))
        if abs(lp - math.log(float(jp))) > 1e-3:
            ctx.property_failure(None, f"compute_sequence_log_prob {lp} != log joint {math.log(float(jp))}", {**case, "states": ss})
        if Fr(r[4]) != jp:
            ctx.correspondence_break("Hmm.joint", f"{r[4]} vs {jp}", case)
        tot_lp, prev = 0.0, jnp.asarray(0)
        for t in range(T):
            d, _ = discrete_hmm.assess({"state": jnp.asarray(ss[t]), "obs": jnp.asarray(obs[t])}, prev, jnp.asarray(t), f(init), f(trans), f(emis))
            tot_lp += float(d)
            prev = jnp.asarray(ss[t])
        if abs(tot_lp - math.log(float(jp))) > 1e-3:
            ctx.property_failure(None, f"iterated discrete_hmm step model density {tot_lp} != log joint {math.log(float(jp))}", {**case, "states": ss})
    ctx.case(sample=case if ctx.coverage["evaluations"] % 13 == 0 else None,
             nontrivial_key=("hmm", str(case["init"]), str(case["trans"]), str(obs)) if (T >= 2 and K >= 2) else None)
    ctx.count(f"hmm:K={K},T={T}" + (",sparse" if sparse else ""))


def ffbs_law(G, ctx, rng, K, M, T, n_keys):
    import jax
    import jax.numpy as jnp
    import jax.random as jr
    from genjax.extras.state_space import backward_sample, forward_filter
    from scipy.stats import chi2
    init = rand_stochastic(rng, 1, K, False)[0]
    trans = rand_stochastic(rng, K, K, True)
    emis = rand_stochastic(rng, K, M, False)
    obs = [rng.randrange(M) for _ in range(T)]
    tot, _ = brute_hmm(init, trans, emis, obs)
    f = lambda m: jnp.asarray(np.array(m, dtype=np.float64), dtype=jnp.float32)
    alpha, _ = forward_filter(jnp.asarray(obs), f(init), f(trans), f(emis))
    keys = jr.split(jr.key(ctx.seed + 5), n_keys)
    draws = np.asarray(jax.jit(jax.vmap(lambda k: G.seed(backward_sample)(k, alpha, f(trans))))(keys))
    seqs = list(itertools.product(range(K), repeat=T))
    probs = np.array([float(joint_hmm(init, trans, emis, ss, obs)) / tot for ss in seqs])
    counts = np.array([(draws == np.array(ss)).all(axis=1).sum() for ss in seqs], dtype=float)
    exp_ = probs * n_keys
    mask = exp_ > 0
    stat = float((((counts - exp_) ** 2)[mask] / exp_[mask]).sum()) + (1e9 if counts[~mask].sum() > 0 else 0)
    thr = float(chi2.isf(1e-6, max(1, int(mask.sum()) - 1)))
    case = {"kind": "ffbs-law", "K": K, "M": M, "T": T, "keys": n_keys, "chi2": stat, "threshold": thr,
            "init": [str(x) for x in init], "trans": [[str(x) for x in r] for r in trans], "emis": [[str(x) for x in r] for r in emis], "obs": obs}
    if stat > thr:
        ctx.property_failure(None, f"backward_sample frequencies disagree with the exact posterior (chi2={stat:.1f} > {thr:.1f})", case)
    # exact law in the Lean model for one sequence
    ss = list(seqs[int(np.argmax(probs))])
    r = sexp.loads(common.driver_run([sexp.dumps(["hmm", init, trans, emis, obs, ss])])[0])
    if Fr(r[5]) != Fr(r[4]) / Fr(r[1]):
        ctx.correspondence_break("Hmm.ffbsProb = joint/marginal", f"{r[5]} vs {Fr(r[4]) / Fr(r[1])}", case)
    ctx.case(sample=case, nontrivial_key=("ffbs", K, M, T))
    ctx.count("ffbs-law")


# ------------------------------------------------------------------ Kalman
def rand_spd(rng, d, scale=1.0):
    a = np.array([[rng.uniform(-1, 1) for _ in range(d)] for _ in range(d)])
    return scale * (a @ a.T + 0.5 * np.eye(d))


def dense_oracle(m0, P0, A, Q, C, R, ys):
    """joint Gaussian of (x_0..x_{T-1}, y_0..y_{T-1}); returns filtering/smoothing moments and log marginal"""
    T, ds, do = len(ys), len(m0), C.shape[0]
    mx = [m0]
    for t in range(1, T):
        mx.append(A @ mx[-1])
    Pxx = [[None] * T for _ in range(T)]
    Pt = [P0]
    for t in range(1, T):
        Pt.append(A @ Pt[-1] @ A.T + Q)
    for s in range(T):
        for t in range(T):
            if s <= t:
                Pxx[s][t] = Pt[s] @ np.linalg.matrix_power(A.T, t - s)
            else:
                Pxx[s][t] = np.linalg.matrix_power(A, s - t) @ Pt[t]
    Sxx = np.block(Pxx)
    Cb = np.kron(np.eye(T), C)
    Sxy = Sxx @ Cb.T
    Syy = Cb @ Sxx @ Cb.T + np.kron(np.eye(T), R)
    mu_x = np.concatenate(mx)
    mu_y = Cb @ mu_x
    y = np.concatenate(ys)
    from scipy.stats import multivariate_normal as mvn
    lml = float(mvn.logpdf(y, mu_y, Syy))

    def cond(upto):
        iy = slice(0, upto * do)
        G_ = Sxy[:, iy] @ np.linalg.inv(Syy[iy, iy])
        m = mu_x + G_ @ (y[iy] - mu_y[iy])
        S = Sxx - G_ @ Sxy[:, iy].T
        return m, S
    filt_m, filt_P = [], []
    for t in range(T):
        m, S = cond(t + 1)
        filt_m.append(m[t * ds:(t + 1) * ds])
        filt_P.append(S[t * ds:(t + 1) * ds, t * ds:(t + 1) * ds])
    m, S = cond(T)
    sm_m = [m[t * ds:(t + 1) * ds] for t in range(T)]
    sm_P = [S[t * ds:(t + 1) * ds, t * ds:(t + 1) * ds] for t in range(T)]
    return filt_m, filt_P, sm_m, sm_P, lml, (mu_x, Sxx, Cb, R)


def kalman_case(G, ctx, rng, ds, do, T):
    import jax.numpy as jnp
    from genjax.extras.state_space import kalman_filter, kalman_smoother, linear_gaussian
    m0 = np.array([rng.uniform(-1, 1) for _ in range(ds)])
    P0 = rand_spd(rng, ds)
    A = np.array([[rng.uniform(-0.9, 0.9) for _ in range(ds)] for _ in range(ds)])
    Q = rand_spd(rng, ds, 0.5)
    C = np.array([[rng.uniform(-1, 1) for _ in range(ds)] for _ in range(do)])
    R = rand_spd(rng, do, 0.5)
    ys = [np.array([rng.uniform(-2, 2) for _ in range(do)]) for _ in range(T)]
    f = lambda a: jnp.asarray(a, dtype=jnp.float32)
    case = {"kind": "kalman", "d_state": ds, "d_obs": do, "T": T, "m0": m0.tolist(), "P0": P0.tolist(), "A": A.tolist(),
            "Q": Q.tolist(), "C": C.tolist(), "R": R.tolist(), "ys": [y.tolist() for y in ys]}
    fm, fP, sm, sP, lml, _ = dense_oracle(m0, P0, A, Q, C, R, ys)
    try:
        km, kP, klml = kalman_filter(f(np.array(ys)), f(m0), f(P0), f(A), f(Q), f(C), f(R))
        smm, smP = kalman_smoother(f(np.array(ys)), f(m0), f(P0), f(A), f(Q), f(C), f(R))
    except Exception as ex:
        ctx.property_failure(None, f"kalman_filter/smoother raised {type(ex).__name__}: {str(ex)[:120]}", case)
        return
    tol = dict(rtol=5e-3, atol=5e-3)
    if not np.allclose(np.asarray(km), np.array(fm), **tol) or not np.allclose(np.asarray(kP), np.array(fP), **tol):
        ctx.property_failure(None, "kalman_filter moments differ from conditioning the joint Gaussian", case)
    if abs(float(klml) - lml) > 5e-3 * (1 + abs(lml)):
        ctx.property_failure(None, f"kalman_filter log marginal {float(klml)} != dense Gaussian {lml}", case)
    if not np.allclose(np.asarray(smm), np.array(sm), **tol) or not np.allclose(np.asarray(smP), np.array(sP), **tol):
        ctx.property_failure(None, "kalman_smoother moments differ from conditioning the joint Gaussian on all observations", case)
    # iterated step model = joint density of (x, y)
    from scipy.stats import multivariate_normal as mvn
    xs = [np.array([rng.uniform(-1, 1) for _ in range(ds)]) for _ in range(T)]
    want = mvn.logpdf(xs[0], m0, P0) + mvn.logpdf(ys[0], C @ xs[0], R)
    for t in range(1, T):
        want += mvn.logpdf(xs[t], A @ xs[t - 1], Q) + mvn.logpdf(ys[t], C @ xs[t], R)
    got, prev = 0.0, f(np.zeros(ds))
    for t in range(T):
        d, _ = linear_gaussian.assess({"state": f(xs[t]), "obs": f(ys[t])}, prev, jnp.asarray(t), f(m0), f(P0), f(A), f(Q), f(C), f(R))
        got += float(d)
        prev = f(xs[t])
    if abs(got - float(want)) > 5e-3 * (1 + abs(float(want))):
        ctx.property_failure(None, f"iterated linear_gaussian step model density {got} != joint Gaussian density {float(want)}", case)
    ctx.case(sample={k: case[k] for k in ("kind", "d_state", "d_obs", "T")} if ctx.coverage["evaluations"] % 7 == 0 else None,
             nontrivial_key=("kalman", ds, do, T, float(m0[0])) if T >= 2 else None)
    ctx.count(f"kalman:ds={ds},do={do}")


def kalman_scalar_model(G, ctx, rng, T):
    import jax.numpy as jnp
    from genjax.extras.state_space import kalman_filter
    q = lambda lo, hi: Fr(rng.randint(lo, hi), 4)
    m0, P0, a, qq, c, r = q(-4, 4), q(1, 8), q(-3, 3), q(1, 6), q(-4, 4), q(1, 6)
    ys = [q(-8, 8) for _ in range(T)]
    f = lambda v, shape: jnp.asarray(np.array(v, dtype=np.float64).reshape(shape), dtype=jnp.float32)
    km, kP, _ = kalman_filter(f([float(y) for y in ys], (T, 1)), f([float(m0)], (1,)), f([float(P0)], (1, 1)), f([float(a)], (1, 1)),
                              f([float(qq)], (1, 1)), f([float(c)], (1, 1)), f([float(r)], (1, 1)))
    res = sexp.loads(common.driver_run([sexp.dumps(["kalman1", m0, P0, a, qq, c, r, ys])])[0])
    mm = np.array([[float(Fr(e[0])), float(Fr(e[1]))] for e in res[1]])
    got = np.stack([np.asarray(km).reshape(-1), np.asarray(kP).reshape(-1)], axis=1)
    case = {"kind": "kalman-scalar", "params": [str(x) for x in (m0, P0, a, qq, c, r)], "ys": [str(y) for y in ys]}
    if not np.allclose(got, mm, rtol=2e-3, atol=2e-3):
        ctx.correspondence_break("Kalman.update/predict (scalar) vs kalman_filter", f"model {mm.tolist()} impl {got.tolist()}", case)
    ctx.case(nontrivial_key=("k1", str(case["params"]), T))
    ctx.count("kalman-scalar-model")


def run(ctx, audit):
    G = impl.load()
    rng = ctx.rng
    n_h = 140 if ctx.thorough else 40
    for i in range(n_h):
        K, M = rng.randint(1, 4), rng.randint(1, 4)
        T = rng.randint(1, 5 if K <= 3 else 4)
        hmm_case(G, ctx, rng, K, M, T, sparse=(i % 2 == 0))
    for (K, M, T) in ([(2, 2, 3), (3, 2, 2)] + ([(2, 3, 4), (3, 3, 3)] if ctx.thorough else [])):
        ffbs_law(G, ctx, rng, K, M, T, 20000 if ctx.thorough else 6000)
    dims = [(1, 1), (2, 1), (1, 2), (2, 3), (3, 2), (3, 1), (2, 2)]
    for i in range(60 if ctx.thorough else 18):
        ds, do = dims[i % len(dims)]
        kalman_case(G, ctx, rng, ds, do, rng.randint(1, 5))
    for i in range(20 if ctx.thorough else 6):
        kalman_scalar_model(G, ctx, rng, rng.randint(1, 4))
    return {"rule": RULE}


def replay(ctx, payload):
    # cases are regenerated from the seed recorded in the payload
    ctx.seed = payload.get("seed", 0)
    import random
    import hashlib
    ctx.rng = random.Random(ctx.seed * 1000003 + int(hashlib.sha1(b"C20").hexdigest()[:6], 16))
    run(ctx, {})
    for i in ctx.issues:
        print("REPRODUCED:", i["what"])
    if not ctx.issues:
        print("not reproduced")
    return 1 if ctx.issues else 0
