"""C16 — selections are a Boolean algebra on addresses; filter/merge partition choices."""
import itertools
import json

import common
import impl
import sexp

ALPHA = ["a", "b", "c"]


# ---------------------------------------------------------------- expression language
# expr: ("all",) ("none",) ("str",a) ("tup",a,b,..) ("dict",(k,e),..) ("compl",e) ("inter",e,f) ("union",e,f)

def atoms():
    out = [("all",), ("none",)]
    out += [("str", a) for a in ALPHA[:2]]
    out += [("tup", "a"), ("tup", "a", "b"), ("tup", "b", "a"), ("tup", "a", "b", "c"), ("tup", "a", "a")]
    out += [("dict", ("a", ("all",))), ("dict", ("a", ("str", "b"))),
            ("dict", ("a", ("none",)), ("b", ("all",))),
            ("dict", ("a", ("tup", "b", "c"))),
            ("dict", ("a", ("dict", ("b", ("all",))))),
            ("dict", ("a", ("compl", ("str", "b"))))]
    return out


def depth1():
    A = atoms()
    out = list(A) + [("compl", a) for a in A]
    for x, y in itertools.product(A, A):
        out.append(("inter", x, y))
        out.append(("union", x, y))
    return out


def rand_expr(rng, depth):
    if depth == 0 or rng.random() < 0.25:
        return rng.choice(atoms())
    r = rng.random()
    if r < 0.3:
        return ("compl", rand_expr(rng, depth - 1))
    if r < 0.6:
        return ("inter", rand_expr(rng, depth - 1), rand_expr(rng, depth - 1))
    if r < 0.9:
        return ("union", rand_expr(rng, depth - 1), rand_expr(rng, depth - 1))
    ks = rng.sample(ALPHA, rng.randint(1, 2))
    return ("dict",) + tuple((k, rand_expr(rng, depth - 1)) for k in ks)


def to_impl(g, e):
    t = e[0]
    if t == "all":
        return g.sel(())
    if t == "none":
        return g.sel()
    if t == "str":
        return g.sel(e[1])
    if t == "tup":
        return g.sel(tuple(e[1:]))
    if t == "dict":
        return g.sel({k: to_impl(g, v) for k, v in e[1:]})
    if t == "compl":
        return ~to_impl(g, e[1])
    if t == "inter":
        return to_impl(g, e[1]) ^ to_impl(g, e[2])
    if t == "union":
        return to_impl(g, e[1]) | to_impl(g, e[2])
    raise ValueError(e)


def to_sexp(e):
    t = e[0]
    if t in ("all", "none"):
        return t
    if t == "dict":
        return ["dict"] + [[k, to_sexp(v)] for k, v in e[1:]]
    if t in ("str", "tup"):
        return list(e)
    return [t] + [to_sexp(x) for x in e[1:]]


def ref_selected(e, p):
    """independent reference, written from the property statement"""
    t = e[0]
    if t == "all":
        return True
    if t == "none":
        return False
    if t == "str":
        return len(p) > 0 and p[0] == e[1]
    if t == "tup":
        q = tuple(e[1:])
        return len(q) > 0 and tuple(p[: len(q)]) == q
    if t == "dict":
        d = dict(e[1:])
        return len(p) > 0 and p[0] in d and ref_selected(d[p[0]], p[1:])
    if t == "compl":
        return not ref_selected(e[1], p)
    if t == "inter":
        return ref_selected(e[1], p) and ref_selected(e[2], p)
    if t == "union":
        return ref_selected(e[1], p) or ref_selected(e[2], p)
    raise ValueError(e)


def compl_free(e):
    t = e[0]
    if t == "compl":
        return False
    if t == "dict":
        return all(compl_free(v) for _, v in e[1:])
    if t in ("inter", "union"):
        return compl_free(e[1]) and compl_free(e[2])
    return True


def impl_chain(s, p):
    """(selected, flags) via the implementation's own match / `() in` protocol"""
    flags = []
    for k in p:
        hit, s = s.match(k)
        flags.append(bool(hit))
    return (() in s), flags


def all_paths(maxlen=3):
    out = [()]
    for n in range(1, maxlen + 1):
        out += list(itertools.product(ALPHA, repeat=n))
    return out


# ---------------------------------------------------------------- choice maps
def shapes():
    L = itertools.count(1)
    n = lambda: next(L)
    return [
        {"a": n(), "b": n()},
        {"a": {"b": n(), "c": n()}, "d": n()},
        {"a": {"b": {"c": n(), "a": n()}, "c": n()}, "b": n()},
        {"a": {"a": n()}, "b": {"a": n(), "b": n()}, "c": n()},
        {"c": {"b": {"a": n()}}},
        {"a": n()},
        {"b": {"a": {"c": n()}}, "a": {"b": {"c": n(), "b": n()}}},
    ]


def rand_shape(rng, depth=3):
    cnt = [100]

    def go(d):
        out = {}
        for k in rng.sample(ALPHA + ["d"], rng.randint(1, 3)):
            if d > 1 and rng.random() < 0.45:
                out[k] = go(d - 1)
            else:
                cnt[0] += 1
                out[k] = cnt[0]
        return out
    return go(depth)


def chm_sexp(x):
    if isinstance(x, dict):
        return ["node"] + [[k, chm_sexp(v)] for k, v in x.items()]
    return ["leaf", int(x)]


def sexp_chm(t):
    if t[0] == "leaf":
        return int(t[1])
    return {kv[0]: sexp_chm(kv[1]) for kv in t[1:]}


def leaves(x, pre=()):
    if x is None:
        return {}
    if isinstance(x, dict):
        out = {}
        for k, v in x.items():
            out.update(leaves(v, pre + (k,)))
        return out
    return {pre: x}


def norm(x):
    """canonical form of an implementation choice map (None == {})"""
    if x is None:
        return {}
    if isinstance(x, dict):
        return {k: norm(v) for k, v in sorted(x.items())}
    return int(x)


def deep_sort(x):
    if isinstance(x, dict):
        return {k: deep_sort(v) for k, v in sorted(x.items())}
    return x


# ---------------------------------------------------------------- evaluation of one case
def eval_path_case(g, ctx, e, p, model_line=None):
    s = to_impl(g, e)
    got, flags = impl_chain(s, p)
    want = ref_selected(e, p)
    case = {"kind": "sel-path", "expr": e, "path": list(p), "impl_selected": got, "required": want}
    if got != want:
        ctx.property_failure(None, f"path {p} selected={got} by the implementation, property requires {want}", case)
    if model_line is not None:
        r = sexp.loads(model_line)
        m_sel = r[1] == "T"
        m_flags = [f == "T" for f in r[2]]
        if r[0] != "ok" or m_sel != got or m_flags != flags:
            ctx.correspondence_break("Sel.matchAddr/Sel.selected vs Selection.match", f"model {r} impl {(got, flags)}", case)


def eval_filter_case(g, ctx, x, e, model_line=None):
    gf = g.gen(lambda: None)
    s = to_impl(g, e)
    try:
        sel_part, unsel_part = gf.filter(x, s)
    except Exception as ex:  # the operation must be defined
        ctx.property_failure(None, f"filter raised {type(ex).__name__}: {ex}", {"kind": "filter", "x": x, "expr": e})
        return
    L = leaves(x)
    want_sel = {p: v for p, v in L.items() if ref_selected(e, p)}
    want_uns = {p: v for p, v in L.items() if not ref_selected(e, p)}
    got_sel, got_uns = leaves(sel_part), leaves(unsel_part)
    case = {"kind": "filter", "x": x, "expr": e, "impl_selected": norm(sel_part), "impl_unselected": norm(unsel_part)}
    ok_partition = got_sel == want_sel and got_uns == want_uns
    # merge(filter) = x
    try:
        if sel_part is None:
            merged = unsel_part
        elif unsel_part is None:
            merged = sel_part
        else:
            merged, _ = gf.merge(sel_part, unsel_part)
        ok_merge = norm(merged) == norm(x)
    except Exception as ex:
        ok_merge = False
        case["merge_error"] = repr(ex)
    asis_match = None
    if model_line is not None:
        r = sexp.loads(model_line)
        a1, a2, b1, b2 = (deep_sort(sexp_chm(t)) for t in r[1:5])
        asis_match = (a1 == norm(sel_part) and a2 == norm(unsel_part))
        spec_ok = (leaves(b1) == want_sel and leaves(b2) == want_uns)
        if not spec_ok:
            ctx.correspondence_break("ChmL.filterSpec vs reference semantics", f"model spec {b1},{b2}", case)
        spec_match = (b1 == norm(sel_part) and b2 == norm(unsel_part))
        if not asis_match and not spec_match:
            ctx.correspondence_break("ChmL.filterSpec / ChmL.filterAsis vs Fn.filter", f"model spec {b1},{b2} asis {a1},{a2} impl {norm(sel_part)},{norm(unsel_part)}", case)
        ctx.count("filter-matches:" + ("spec" if spec_match else "asis" if asis_match else "neither"))
        case["model_flagSound"] = r[5]
        if r[5] == "T" and not ok_partition:
            ctx.correspondence_break("C16_filter_asis_partial premise", "flagSound but partition fails", case)
    if not ok_partition:
        cls = "filter-flag-complement" if not compl_free(e) else "filter-deeper-than-map"
        ctx.property_failure(cls, f"filter: selected part has leaves {sorted(got_sel)}, property requires {sorted(want_sel)}",
                             case, matches_asis=bool(asis_match))
    if not ok_merge:
        ctx.property_failure(None, "merge(filter(x,s)) != x", case)
    return ok_partition


def run(ctx, audit):
    g = impl.load()
    rng = ctx.rng
    # ---- 1. match chains: exhaustive depth<=1, sampled deeper
    exprs = depth1()
    n_exh = len(exprs)
    extra = 4000 if ctx.thorough else 600
    for _ in range(extra):
        exprs.append(rand_expr(rng, rng.randint(2, 4 if ctx.thorough else 3)))
    paths = all_paths(3)
    jobs = [(e, p) for e in exprs for p in paths]
    out = common.driver_run([sexp.dumps(["sel-path", to_sexp(e), list(p)]) for e, p in jobs])
    for (e, p), line in zip(jobs, out):
        eval_path_case(g, ctx, e, p, line)
        ctx.case(sample={"kind": "sel-path", "expr": e, "path": p} if ctx.coverage["evaluations"] % 9973 == 7 else None,
                 nontrivial_key=("p", json.dumps(e), p) if e[0] not in ("all", "none") else None)
        ctx.count("sel-path:" + e[0])
    # algebra monitors directly on the implementation (no model, no reference)
    pool = exprs[:n_exh:7] + exprs[n_exh:n_exh + 60]
    for s_e, t_e in itertools.islice(itertools.product(pool, pool), 0, 6000 if ctx.thorough else 1500):
        s, t = to_impl(g, s_e), to_impl(g, t_e)
        for p in paths[::3]:
            a, _ = impl_chain(s, p)
            b, _ = impl_chain(t, p)
            for name, combo, want in (("union", s | t, a or b), ("inter", s ^ t, a and b), ("compl", ~s, not a)):
                got, _ = impl_chain(combo, p)
                if got != want:
                    ctx.property_failure(None, f"{name} law fails on path {p}", {"kind": "law", "law": name, "s": s_e, "t": t_e, "path": list(p)})
            ctx.case()
        ctx.count("law-pairs")
    # ---- 2. filter / merge
    maps = shapes() + [rand_shape(rng) for _ in range(40 if ctx.thorough else 10)]
    fexprs = exprs[:n_exh:3] + exprs[n_exh:n_exh + (800 if ctx.thorough else 150)]
    jobs = [(x, e) for x in maps for e in fexprs]
    out = common.driver_run([sexp.dumps(["filter", chm_sexp(x), to_sexp(e)]) for x, e in jobs])
    n_ok = 0
    for (x, e), line in zip(jobs, out):
        ok = eval_filter_case(g, ctx, x, e, line)
        n_ok += bool(ok)
        ctx.case(sample={"kind": "filter", "x": x, "expr": e} if ctx.coverage["evaluations"] % 997 == 3 else None,
                 nontrivial_key=("f", json.dumps(x), json.dumps(e)))
        ctx.count("filter:" + ("complfree" if compl_free(e) else "with-compl"))
    # ---- 3. proved counterexample witnesses replayed on the implementation
    for x, e in ((
        {"a": {"b": 1, "c": 2}, "d": 3}, ("compl", ("tup", "a", "b"))),
        ({"a": 1}, ("tup", "a", "b")),
    ):
        line = common.driver_run([sexp.dumps(["filter", chm_sexp(x), to_sexp(e)])])[0]
        eval_filter_case(g, ctx, x, e, line)
        ctx.case(sample={"kind": "filter-witness", "x": x, "expr": e}, nontrivial_key=("w", json.dumps(x)))
    # ---- 4. leaf / Distribution.filter and vectorised / Cond leaves
    run_gfi_part(g, ctx)
    return {"exhaustive": True,
            "rule": f"all {n_exh} selection expressions of nesting depth<=1 over {len(atoms())} atoms x all {len(paths)} paths of length<=3 over {{a,b,c}} (exhaustive) + {extra} random deeper expressions; filter/merge on {len(maps)} choice-map shapes; non-trivial = expression other than all/none; distinct by (expr,path) / (map,expr)",
            "filter_cases_partition_ok": n_ok}


def run_gfi_part(g, ctx):
    """Distribution/Vmap/Cond filter delegation and agreement with regenerate."""
    import jax
    import jax.numpy as jnp
    import jax.random as jr
    import numpy as np

    normal = g.normal

    @g.gen
    def inner(m):
        b = normal(m, 1.0) @ "b"
        c = normal(b, 1.0) @ "c"
        return c

    @g.gen
    def model(m):
        a = inner(m) @ "a"
        d = normal(a, 1.0) @ "d"
        v = normal.vmap(in_axes=(0, None))(jnp.arange(3.0), 1.0) @ "b"
        return d + jnp.sum(v)

    tr = g.seed(model.simulate)(jr.key(ctx.seed), 0.5)
    x = tr.get_choices()
    L = {p: np.asarray(v) for p, v in leaves_arr(x).items()}
    sel_exprs = [("str", "a"), ("tup", "a", "b"), ("tup", "a", "c"), ("str", "d"), ("str", "b"), ("none",), ("all",),
                 ("union", ("tup", "a", "b"), ("str", "d")), ("inter", ("str", "a"), ("tup", "a", "c")),
                 ("compl", ("str", "a")), ("compl", ("tup", "a", "b")), ("dict", ("a", ("str", "c"))),
                 ("inter", ("str", "a"), ("compl", ("tup", "a", "b"))), ("compl", ("none",)),
                 ("union", ("compl", ("str", "a")), ("tup", "a", "c"))]
    for e in sel_exprs:
        s = to_impl(g, e)
        want = {p for p in L if ref_selected(e, p)}
        # which addresses does regenerate resample?
        try:
            new_tr, w, disc = g.seed(model.regenerate)(jr.key(ctx.seed + 17), tr, s, 0.5)
            L2 = {p: np.asarray(v) for p, v in leaves_arr(new_tr.get_choices()).items()}
            changed = {p for p in L if not np.array_equal(L[p], L2[p])}
            case = {"kind": "regenerate-vs-selection", "expr": e, "changed": sorted(changed), "required": sorted(want)}
            if changed != want:
                ctx.property_failure(None, f"regenerate resampled {sorted(changed)}, selection selects {sorted(want)}", case)
        except Exception as ex:
            impl.reset_handlers()
            ctx.property_failure(None, f"regenerate raised {type(ex).__name__}: {ex}", {"kind": "regenerate-vs-selection", "expr": e})
        # filter on the same (vectorised) choice map
        try:
            sp, up = model.filter(x, s)
            got = set(leaves_arr(sp)) if sp is not None else set()
            gotu = set(leaves_arr(up)) if up is not None else set()
            case = {"kind": "filter-gfi", "expr": e, "impl_selected": sorted(got), "required": sorted(want)}
            if got != want or gotu != set(L) - want:
                asis = model_asis_filter_paths(x_shape(x), e)
                cls = "filter-flag-complement" if not compl_free(e) else "filter-deeper-than-map"
                ctx.property_failure(cls, f"filter selected {sorted(got)}, property requires {sorted(want)}", case,
                                     matches_asis=(asis == got))
        except Exception as ex:
            impl.reset_handlers()
            ctx.property_failure(None, f"filter raised {type(ex).__name__}: {ex}", {"kind": "filter-gfi", "expr": e})
        ctx.case(sample={"kind": "regenerate/filter agreement", "expr": e}, nontrivial_key=("g", json.dumps(e)))
        ctx.count("gfi-agreement")
    # Distribution.filter on a bare leaf: () in s
    for e in [("all",), ("none",), ("str", "a"), ("compl", ("str", "a")), ("compl", ("all",)), ("union", ("none",), ("all",))]:
        sp, up = normal.filter(jnp.array(1.5), to_impl(g, e))
        want = ref_selected(e, ())
        if (sp is not None) != want or (up is not None) == want:
            ctx.property_failure(None, "Distribution.filter disagrees with root selection", {"kind": "leaf-filter", "expr": e})
        ctx.case(nontrivial_key=("leaf", json.dumps(e)))


def leaves_arr(x, pre=()):
    if isinstance(x, dict):
        out = {}
        for k, v in x.items():
            out.update(leaves_arr(v, pre + (k,)))
        return out
    return {pre: x}


def x_shape(x):
    if isinstance(x, dict):
        return {k: x_shape(v) for k, v in x.items()}
    return 0


def model_asis_filter_paths(shape, e):
    line = common.driver_run([sexp.dumps(["filter", chm_sexp(shape), to_sexp(e)])])[0]
    r = sexp.loads(line)
    return set(leaves(sexp_chm(r[1])))


def replay(ctx, payload):
    g = impl.load()
    case = payload.get("case") or {}
    def tup(e):
        return tuple(tup(x) if isinstance(x, list) else x for x in e)
    k = case.get("kind")
    if k == "sel-path":
        eval_path_case(g, ctx, tup(case["expr"]), tuple(case["path"]))
    elif k in ("filter", "filter-witness"):
        eval_filter_case(g, ctx, case["x"], tup(case["expr"]),
                         common.driver_run([sexp.dumps(["filter", chm_sexp(case["x"]), to_sexp(tup(case["expr"]))])])[0])
    else:
        run_gfi_part(g, ctx)
    for i in ctx.issues:
        print("REPRODUCED:", i["what"])
    for k_, h in ctx.known_hits.items():
        print("REPRODUCED (known finding):", h["what"])
    if not ctx.issues and not ctx.known_hits:
        print("not reproduced")
    return 1 if ctx.issues else 0
