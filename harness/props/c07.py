"""C07 — every sample site of a seeded run gets its own independent randomness."""
import itertools
import json
import random

import numpy as np

import common
import impl
import seedprog

RULE = ("random seeded programs (sequences, nested scans, cond inside scan, scan inside cond, vectorised sites) with the key-revealing probe: "
        "keys observed at all sites pairwise distinct and equal to the Lean model's key paths; programs whose sites sit under 0-2 nested "
        "modular_vmaps (lanes from in_axes=() or from a batched parameter) with an own sample_shape, observed with a probe that also reveals the "
        "static sample_shape and parameter batch shape of the executing sampler call: one call per site occurrence, key / sample_shape / "
        "returned shape equal to Model/SeedVec.lean; real-distribution programs whose sites share "
        "parameters (sequence, scan, vmap of scan, scan of vmap, cond then site, cond in scan, nested repeat, sample_shape site under vmap): "
        "all draws pairwise unequal; correlation / marginal tests over key batches (thorough: 4096 keys); non-trivial = >=2 sites")


def check_keys(G, ctx, prog, key_int):
    import jax.numpy as jnp
    import jax.random as jr
    f = seedprog.build(G, prog)
    key = jr.key(key_int)
    case = {"kind": "site-keys", "prog": json.dumps(prog), "key": key_int}
    try:
        outs = G.seed(f)(key, jnp.float32(0.5))
        obs, ok_v = seedprog.observed_outputs(prog, outs)
    except Exception as ex:
        ctx.property_failure(None, f"seed(f) raised {type(ex).__name__}: {str(ex)[:160]}", case)
        return
    seen = {}
    for k, v in obs.items():
        t = tuple(int(x) for x in v)
        if t in seen:
            case["sites_sharing_a_key"] = [str(seen[t]), str(k)]
            ctx.property_failure(None, f"sites {seen[t]} and {k} (id, scan iterations) were sampled with the same PRNG key", case)
            break
        seen[t] = k
    want = seedprog.expected_outputs(prog, key)
    if set(want) != set(obs) or any(not np.array_equal(want[k], obs[k]) for k in want):
        ctx.correspondence_break("Seed.siteKeys (Lean) + jax.random vs observed site keys", "a site received another key than the model's path", case)
    # vectorised sites (Model/SeedVec.lean): one sampler call per site occurrence with the model's key, the model's
    # `sample_shape` (where the probe reveals it) and the model's returned-array shape
    calls, one_call = seedprog.observed_calls(prog, outs)
    wantc = seedprog.expected_calls(prog, key)
    name = "SeedVec.siteCalls (Lean) vs observed sampler calls"
    if not one_call:
        ctx.correspondence_break(name, "the lanes of a vectorised site do not stem from one sampler call with one key", case)
    elif set(wantc) != set(calls):
        ctx.correspondence_break(name, "the sampler calls are not the model's (site, scan iterations) occurrences", case)
    else:
        for k, (kb, ss, ret) in wantc.items():
            okb, oss, oret = calls[k]
            if not np.array_equal(kb, okb) or (oss is not None and tuple(oss) != tuple(ss)) or tuple(oret) != tuple(ret):
                cs = dict(case)
                cs["call"] = {"site": list(k), "model_sample_shape": list(ss), "observed_sample_shape": None if oss is None else list(oss),
                              "model_returned_shape": list(ret), "observed_returned_shape": list(oret)}
                ctx.correspondence_break(name, f"site {k}: sample_shape/returned shape/key of the sampler call differ from the model "
                                               f"(model {ss}/{ret}, observed {oss}/{oret})", cs)
                break
    ctx.case(sample=case if ctx.coverage["evaluations"] % 9 == 0 else None,
             nontrivial_key=json.dumps(prog) if len(obs) >= 2 else None)
    ctx.count("key-programs")


def real_programs(G):
    """(name, function returning a flat array of draws that must be pairwise unequal)"""
    import jax
    import jax.numpy as jnp
    normal = G.normal
    mv = G.modular_vmap

    def seq():
        return jnp.stack([normal.sample(0.0, 1.0) for _ in range(4)])

    def scan():
        _, ys = jax.lax.scan(lambda c, x: (c, jnp.stack([normal.sample(0.0, 1.0), normal.sample(0.0, 1.0)])), 0.0, jnp.arange(3))
        return ys.reshape(-1)

    def vmap_of_scan():
        def inner(x):
            _, ys = jax.lax.scan(lambda c, t: (c, normal.sample(0.0, 1.0)), 0.0, jnp.arange(3))
            return ys
        return mv(inner, in_axes=(0,))(jnp.zeros(3)).reshape(-1)

    def scan_of_vmap():
        _, ys = jax.lax.scan(lambda c, t: (c, mv(lambda z: normal.sample(z, 1.0), in_axes=(0,))(jnp.zeros(3))), 0.0, jnp.arange(3))
        return ys.reshape(-1)

    def cond_then_site():
        a = jax.lax.cond(normal.sample(0.0, 1.0) > -100.0, lambda: normal.sample(0.0, 1.0) + 0.0, lambda: normal.sample(0.0, 1.0) * 1.0)
        b = normal.sample(0.0, 1.0)
        c = normal.sample(0.0, 1.0)
        return jnp.stack([a, b, c])

    def cond_in_scan():
        def body(c, t):
            a = jax.lax.cond(t % 2 == 0, lambda: normal.sample(0.0, 1.0), lambda: normal.sample(0.0, 1.0) + 0.0)
            return c, jnp.stack([a, normal.sample(0.0, 1.0)])
        _, ys = jax.lax.scan(body, 0.0, jnp.arange(4))
        return ys.reshape(-1)

    def nested_repeat():
        return mv(lambda: mv(lambda: normal.sample(0.0, 1.0), in_axes=(), axis_size=3)(), in_axes=(), axis_size=4)().reshape(-1)

    def sample_shape_under_vmap():
        return mv(lambda: normal.sample(0.0, 1.0, sample_shape=(3,)), in_axes=(), axis_size=4)().reshape(-1)

    def gen_fn_repeat():
        g = G.gen(lambda: normal(0.0, 1.0) @ "x")
        tr = g.repeat(3).repeat(2).simulate()
        return tr.get_choices()["x"].reshape(-1)

    def batched_args():
        return mv(lambda m: jnp.stack([normal.sample(m, 1.0), normal.sample(m, 1.0)]), in_axes=(0,))(jnp.zeros(4)).reshape(-1)

    return [("sequence", seq), ("scan", scan), ("vmap-of-scan", vmap_of_scan), ("scan-of-vmap", scan_of_vmap),
            ("cond-then-site", cond_then_site), ("cond-in-scan", cond_in_scan), ("nested-repeat", nested_repeat),
            ("sample_shape-under-vmap", sample_shape_under_vmap), ("genfn-repeat-repeat", gen_fn_repeat), ("vmap-batched-args", batched_args)]


def check_real(G, ctx, n_keys):
    import jax
    import jax.random as jr
    for name, f in real_programs(G):
        case = {"kind": "real-draws", "program": name}
        try:
            one = np.asarray(G.seed(f)(jr.key(ctx.seed + 3)))
            if len(set(one.tolist())) != one.size:
                dup = [i for i in range(one.size) if list(one).count(one[i]) > 1]
                case["equal_positions"] = dup
                ctx.property_failure(None, f"{name}: equally parameterised continuous sites returned equal values at positions {dup}", case)
                ctx.case(sample=case, nontrivial_key=("real", name))
                continue
            keys = jr.split(jr.key(ctx.seed + 101), n_keys)
            xs = np.asarray(jax.jit(jax.vmap(G.seed(f)))(keys), dtype=np.float64)      # (n_keys, m)
        except Exception as ex:
            ctx.property_failure(None, f"{name}: raised {type(ex).__name__}: {str(ex)[:160]}", case)
            continue
        m = xs.shape[1]
        c = np.corrcoef(xs.T)
        thr = 5.5 / np.sqrt(n_keys)
        worst = max((abs(c[i, j]), i, j) for i in range(m) for j in range(i + 1, m))
        if worst[0] > thr:
            case["corr"] = worst[0]
            case["positions"] = [worst[1], worst[2]]
            ctx.property_failure(None, f"{name}: draws at positions {worst[1]} and {worst[2]} are correlated ({worst[0]:.3f} over {n_keys} keys)", case)
        z = np.abs(xs.mean(axis=0)) * np.sqrt(n_keys)
        v = np.abs(xs.var(axis=0) - 1.0) * np.sqrt(n_keys / 2.0)
        if z.max() > 5.5 or v.max() > 5.5:
            ctx.property_failure(None, f"{name}: a site's draws do not follow N(0,1) (z mean {z.max():.1f}, z var {v.max():.1f})", case)
        ctx.case(sample=case, nontrivial_key=("real", name))
        ctx.count("real:" + name)


def long_runs(G, ctx):
    """distinctness at LARGE counts (the model derives keys from unbounded iteration / lane indices; a narrow counter dtype in the
    implementation would repeat keys only beyond 2^8 / 2^16 occurrences): scans and maps of 300 and 70000 occurrences of one site"""
    import jax
    import jax.numpy as jnp
    import jax.random as jr
    normal, mv = G.normal, G.modular_vmap
    progs = {
        "scan-300": lambda: jax.lax.scan(lambda c, t: (c, normal.sample(0.0, 1.0)), 0.0, jnp.arange(300))[1],
        "reverse-scan-300": lambda: jax.lax.scan(lambda c, t: (c, normal.sample(0.0, 1.0)), 0.0, jnp.arange(300), reverse=True)[1],
        "fori-300": lambda: jax.lax.fori_loop(0, 300, lambda i, a: a.at[i].set(normal.sample(0.0, 1.0)), jnp.zeros(300)),
        "scan-20-of-scan-20": lambda: jax.lax.scan(lambda c, t: (c, jax.lax.scan(lambda c2, t2: (c2, normal.sample(0.0, 1.0)), 0.0, jnp.arange(20))[1]), 0.0, jnp.arange(20))[1].reshape(-1),
        "cond-in-scan-300": lambda: jax.lax.scan(lambda c, t: (c, jax.lax.cond(t % 2 == 0, lambda: normal.sample(0.0, 1.0), lambda: normal.sample(0.0, 1.0))), 0.0, jnp.arange(300))[1],
        "scan-300-of-vmap-4": lambda: jax.lax.scan(lambda c, t: (c, mv(lambda: normal.sample(0.0, 1.0), in_axes=(), axis_size=4)()), 0.0, jnp.arange(300))[1].reshape(-1),
        "vmap-300": lambda: mv(lambda: normal.sample(0.0, 1.0), in_axes=(), axis_size=300)(),
        "sample_shape-300": lambda: normal.sample(0.0, 1.0, sample_shape=(300,)),
        "scan-70000": lambda: jax.lax.scan(lambda c, t: (c, normal.sample(0.0, 1.0)), 0.0, jnp.arange(70000))[1],
        "vmap-70000": lambda: mv(lambda: normal.sample(0.0, 1.0), in_axes=(), axis_size=70000)(),
    }

    def scan_combinator():
        step = G.gen(lambda c, x: (c, normal(0.0, 1.0) @ "y"))
        tr = G.Scan(step, length=G.const(300)).simulate(jnp.float32(0.0), jnp.zeros(300))
        return tr.get_choices()["y"]
    progs["Scan-combinator-300"] = scan_combinator
    for name, f in progs.items():
        case = {"kind": "long-run", "program": name}
        try:
            out = np.asarray(jax.jit(G.seed(f))(jr.key(ctx.seed + 11))).reshape(-1)
        except Exception as ex:
            impl.reset_handlers()
            ctx.property_failure(None, f"{name}: raised {type(ex).__name__}: {str(ex)[:160]}", case)
            continue
        # float32 normals: a chance collision among 70000 draws has probability ~ n^2 / 2^25; compare the raw bit patterns' multiplicity
        uniq = np.unique(out).size
        expected_collisions = out.size ** 2 / 2.0 / 2 ** 23
        if out.size - uniq > max(2.0, 6.0 * expected_collisions):
            vals, counts = np.unique(out, return_counts=True)
            ctx.property_failure(None, f"{name}: {out.size - uniq} of {out.size} equally parameterised draws of one seeded run are repeated values "
                                 f"(chance level {expected_collisions:.2f}) - occurrences share their randomness", {**case, "repeated": int(out.size - uniq)})
        ctx.case(sample=case if name == "scan-300" else None, nontrivial_key=("long", name))
        ctx.count("long-run")


def shard(ctx, shard_i, n):
    G = impl.load()
    rng = random.Random(ctx.seed * 601 + shard_i)
    if shard_i == 0:
        check_real(G, ctx, 4096 if ctx.thorough else 600)
        return
    if shard_i == 1:
        long_runs(G, ctx)
    for i in range(n):
        prog = seedprog.gen_prog(rng, rng.choice([1, 2, 2, 3] if ctx.thorough else [2, 2, 3]))
        check_keys(G, ctx, prog, ctx.seed * 1000 + shard_i * 50 + i)
    vrng = random.Random(ctx.seed * 607 + shard_i)
    for i in range((n + 1) // 2):
        prog = seedprog.gen_prog_vec(vrng, vrng.choice([0, 1, 1, 2]))
        check_keys(G, ctx, prog, ctx.seed * 1000 + shard_i * 50 + 25 + i)
        ctx.count("vectorised-programs")


def run(ctx, audit):
    ns, per = (14, 20) if ctx.thorough else (10, 4)
    common.run_sharded(ctx, "props.c07", "shard", [(i, per) for i in range(ns)])
    return {"rule": RULE}


def replay(ctx, payload):
    G = impl.load()
    c = payload.get("case") or {}
    if c.get("kind") == "site-keys":
        check_keys(G, ctx, seedprog.from_json(json.loads(c["prog"])), c["key"])
    else:
        check_real(G, ctx, 600)
    for i in ctx.issues:
        print("REPRODUCED:", i["what"])
    for i in ctx.corr_breaks:
        print("CORRESPONDENCE:", i["what"])
    if not ctx.issues and not ctx.corr_breaks:
        print("not reproduced")
    return 1 if ctx.issues else 0
