"""C19 — state/save is transparent and collects exactly what was saved."""
import json

import numpy as np

import common
import impl
import sexp

RULE = ("random placements of save/tag_state calls (named and leaf mode) inside nested functions, namespaces, scans (nested scans, "
        "namespaces around and inside scans), jax.vmap / modular_vmap, nested jax.jit / jax.checkpoint helpers (transparent blocks), with overwrites; each program run eagerly, under jit and under seed; "
        "result vs the unwrapped function, collected dict vs an independent reference of the specification and vs the Lean model; "
        "non-trivial = contains a scan or vmap or a namespace; distinct by program text")

NAMES = ["x", "y", "z"]
NSS = ["a", "b"]


def gen_prog(rng, depth, ns_depth=0, in_ns=False):
    n = rng.randint(1, 3)
    out = []
    for _ in range(n):
        r = rng.random()
        if r < 0.4 or depth == 0:
            out.append(("tag", rng.choice(NAMES), rng.randint(1, 9)))
        elif r < 0.6:
            if rng.random() < 0.2:
                # leaf-mode save: takes over the whole namespace entry, so it is the namespace's only statement
                leaf = [("leaf", rng.randint(1, 9))]
                if rng.random() < 0.4:
                    leaf = [("vmap", leaf, rng.randint(2, 3), rng.random() < 0.5)]
                out.append(("ns", rng.choice(["c", "d"]), leaf))
            else:
                out.append(("ns", rng.choice(NSS), gen_prog(rng, depth - 1, ns_depth + 1, True)))
        elif r < 0.82:
            out.append(("scan", gen_prog(rng, depth - 1, 0, False), rng.randint(1, 3), rng.random() < 0.3))
        elif r < 0.92:
            out.append(("vmap", gen_prog(rng, depth - 1, ns_depth, in_ns), rng.randint(2, 3), rng.random() < 0.5))
        elif r < 0.97:
            # a nested jax.jit / jax.checkpoint helper: a transparent block (its statements count as the enclosing block's)
            out.append(("call", gen_prog(rng, depth - 1, ns_depth, in_ns), rng.choice(["jit", "checkpoint"])))
        else:
            out.append(("other",))
    return out


def to_sexp(prog):
    out = []
    for s in prog:
        k = s[0]
        if k == "tag":
            out.append(["tag", s[1], s[2]])
        elif k == "leaf":
            out.append(["leaf", s[1]])
        elif k == "ns":
            out += [["push", s[1]]] + to_sexp(s[2]) + ["pop"]
        elif k == "scan":
            out.append(["scan", to_sexp(s[1]), s[2]])
        elif k == "vmap":
            out.append(["vmap", to_sexp(s[1]), s[2]])
        elif k == "call":
            out += to_sexp(s[1])          # the Lean model has no call construct: a nested jit / checkpoint is transparent
        else:
            out.append("other")
    return out


def has_kind(prog, kinds):
    return any(s[0] in kinds or (s[0] in ("ns", "scan", "vmap", "call") and has_kind(s[1] if s[0] != "ns" else s[2], kinds)) for s in prog)


def ns_around_scan(prog, inside=False):
    for s in prog:
        if s[0] == "scan" and inside and has_kind(s[1], ("tag", "leaf")):
            return True
        if s[0] == "ns" and ns_around_scan(s[2], True):
            return True
        if s[0] in ("vmap", "call") and ns_around_scan(s[1], inside):
            return True
        if s[0] == "scan" and ns_around_scan(s[1], False):
            return True
    return False


def build(G, prog):
    """python function f(x) executing the placements; returns (result, nothing)"""
    import jax
    import jax.numpy as jnp
    from genjax.state import namespace, save

    def code(x, id_, scan_idx, lane_idx):
        v = x * 0.0 + float(id_ * 1000)
        for k, i in enumerate(scan_idx + lane_idx):
            v = v + i * float(10 ** (2 - k))
        return v

    def run(stmts, x, sidx, lidx):
        acc = x
        for s in stmts:
            k = s[0]
            if k == "tag":
                acc = acc + save(**{s[1]: code(x, s[2], sidx, lidx)})[s[1]]
            elif k == "leaf":
                acc = acc + save(code(x, s[1], sidx, lidx))
            elif k == "ns":
                acc = acc + namespace(lambda: run(s[2], x, sidx, lidx), s[1])()
            elif k == "scan":
                def body(carry, i, s=s):
                    r = run(s[1], x, sidx + [i], lidx)
                    return carry * 0.5 + r, r      # order-sensitive carry
                c, outs = jax.lax.scan(body, jnp.zeros_like(x), jnp.arange(s[2], dtype=jnp.float32),
                                       reverse=bool(len(s) > 3 and s[3]))
                acc = acc + c
            elif k == "vmap":
                vm = G.modular_vmap if s[3] else jax.vmap
                r = vm(lambda l, s=s: run(s[1], x, sidx, lidx + [l]))(jnp.arange(s[2], dtype=jnp.float32))
                acc = acc + jnp.sum(r)
            elif k == "call":
                wrapper = jax.jit if s[2] == "jit" else jax.checkpoint
                acc = acc + wrapper(lambda xx, s=s: run(s[1], xx, sidx, lidx))(x)
            else:
                acc = acc * 1.0
        return acc

    return lambda x: run(prog, x, [], [])


def ref_collect(prog):
    """specification: {path: nested list of codes}; scans stack (outer axis), vmaps batch, later write wins,
    values live under their enclosing namespaces"""
    store = {}

    def code(id_, sidx, lidx):
        return float(id_ * 1000 + sum(i * 10 ** (2 - k) for k, i in enumerate(sidx + lidx)))

    def batched(id_, sidx, lidx, lanes):
        if not lanes:
            return code(id_, sidx, lidx)
        return [batched(id_, sidx, lidx + [l], lanes[1:]) for l in range(lanes[0])]

    def set_(st, path, v):
        for p in [p for p in st if p[: len(path)] == path]:
            del st[p]
        st[path] = v

    def run(stmts, st, ns, sidx, lanes):
        for s in stmts:
            k = s[0]
            if k == "tag":
                set_(st, tuple(ns) + (s[1],), batched(s[2], sidx, [], lanes))
            elif k == "leaf":
                set_(st, tuple(ns), batched(s[1], sidx, [], lanes))
            elif k == "ns":
                run(s[2], st, ns + [s[1]], sidx, lanes)
            elif k == "scan":
                iters = []
                for i in range(s[2]):
                    sub = {}
                    run(s[1], sub, [], sidx + [i], lanes)
                    iters.append(sub)
                for path in iters[0]:
                    set_(st, tuple(ns) + path, [it[path] for it in iters])
            elif k == "vmap":
                run(s[1], st, ns, sidx, lanes + [s[2]])
            elif k == "call":
                run(s[1], st, ns, sidx, lanes)
    run(prog, store, [], [], [])
    return store


def flatten_dict(d, pre=()):
    out = {}
    for k, v in d.items():
        if isinstance(v, dict):
            out.update(flatten_dict(v, pre + (k,)))
        else:
            out[pre + (k,)] = np.asarray(v, dtype=np.float64)
    return out


def sv_to_list(t):
    if t[0] == "a":
        idx = [int(i) for i in t[2:]]
        return float(int(t[1]) * 1000 + sum(i * 10 ** (2 - k) for k, i in enumerate(idx)))
    return [sv_to_list(x) for x in t[1:]]


def model_collect(prog, cfg):
    r = sexp.loads(common.driver_run([sexp.dumps(["state", cfg, to_sexp(prog)])])[0])
    if r[0] != "ok":
        return None
    return {tuple(e[0]): np.asarray(sv_to_list(e[1]), dtype=np.float64) for e in r[1]}


def same_store(a, b):
    return a is not None and b is not None and set(a) == set(b) and all(a[k].shape == b[k].shape and np.array_equal(a[k], b[k]) for k in a)


def check_prog(G, ctx, prog, modes=("eager", "jit", "seed")):
    import jax
    import jax.numpy as jnp
    import jax.random as jr
    from genjax.state import state
    f = build(G, prog)
    x = jnp.float32(0.5)
    want = {k: np.asarray(v, dtype=np.float64) for k, v in ref_collect(prog).items()}
    base = float(f(x))
    case = {"kind": "state", "prog": json.dumps(prog)}
    m_spec = model_collect(prog, "T")
    m_asis = model_collect(prog, "F")
    if not same_store(m_spec, want):
        ctx.correspondence_break("State.collect (spec variant) vs reference semantics", f"model {m_spec} reference {want}", case)
    for mode in modes:
        try:
            if mode == "eager":
                res, col = state(f)(x)
            elif mode == "jit":
                res, col = jax.jit(state(f))(x)
            else:
                res, col = G.seed(state(f))(jr.key(1), x)
        except Exception as ex:
            ctx.property_failure(None, f"state(f) raised under {mode}: {type(ex).__name__}: {str(ex)[:150]}", {**case, "mode": mode})
            continue
        got = flatten_dict(col)
        c = {**case, "mode": mode, "collected": {"/".join(k): v.tolist() for k, v in got.items()},
             "required": {"/".join(k): v.tolist() for k, v in want.items()}}
        if abs(float(res) - base) > 1e-3 * (1 + abs(base)):
            ctx.property_failure(None, f"state(f) changed the result under {mode}: {float(res)} vs {base}", c)
        if not same_store(got, want):
            matches_asis = same_store(got, m_asis)
            ctx.property_failure("namespace-across-scan" if ns_around_scan(prog) else None,
                                 f"collected state differs from what was saved ({mode}): keys {sorted(got)} vs required {sorted(want)}",
                                 c, matches_asis=matches_asis)
        elif not (same_store(got, m_spec) or same_store(got, m_asis)):
            ctx.correspondence_break("State.collect vs state()", "model reproduces neither variant", c)
    ctx.case(sample=case if ctx.coverage["evaluations"] % 11 == 0 else None,
             nontrivial_key=json.dumps(prog) if has_kind(prog, ("scan", "vmap", "ns")) else None)
    for kk in ("scan", "vmap", "ns", "leaf", "call"):
        if has_kind(prog, (kk,)):
            ctx.count("has:" + kk)
    if ns_around_scan(prog):
        ctx.count("ns-around-scan")


def wrapper_reuse(G, ctx):
    """one state(f) wrapper called twice: the second call's dict holds only what the second call saved"""
    import jax.numpy as jnp
    from genjax.state import namespace, save, state

    def f(x):
        if jnp.ndim(x) == 0:
            save(a=x + 1.0)
            return x
        namespace(lambda: save(b=x * 2.0), "n")()
        return jnp.sum(x)

    w = state(f)
    r1, d1 = w(jnp.float32(1.0))
    keys1 = sorted(d1)
    r2, d2 = w(jnp.arange(3.0))
    case = {"kind": "wrapper-reuse", "first": keys1, "second": sorted(d2)}
    if keys1 != ["a"] or sorted(d2) != ["n"] or sorted(d2["n"]) != ["b"]:
        ctx.property_failure(None, f"the dict returned by the second call of one state(f) wrapper holds {sorted(d2)}, it saved only n/b (first call returned {keys1})", case)
    ctx.case(sample=case, nontrivial_key="wrapper-reuse")


def uninterpreted_calls(G, ctx):
    """OPEN finding `state-dropped-in-uninterpreted-call`: a save inside a custom_jvp / custom_vjp function or a while_loop body is
    bound as an identity by the interpreter's fall-through and silently dropped (nested jit / checkpoint were repaired).  Recognised
    only in exactly that form: the result is unchanged and the dict lacks exactly the names saved inside the construct."""
    import jax
    import jax.numpy as jnp
    from genjax.state import save, state

    def inner(x):
        return x + save(a=x * 2.0)["a"]

    cj = jax.custom_jvp(inner)
    cj.defjvp(lambda p, t: jax.jvp(inner, p, t))
    cv = jax.custom_vjp(inner)
    cv.defvjp(lambda x: jax.vjp(inner, x), lambda res, ct: res(ct))
    progs = {"custom_jvp": lambda x: cj(x) + save(b=x)["b"],
             "custom_vjp": lambda x: cv(x) + save(b=x)["b"],
             "while_loop": lambda x: jax.lax.while_loop(lambda c: c < 2.0, inner, x) + save(b=x)["b"]}
    for name, f in progs.items():
        x = jnp.float32(0.5)
        case = {"kind": "uninterpreted-call", "construct": name}
        try:
            res, col = state(f)(x)
        except Exception as ex:
            ctx.property_failure(None, f"state(f) with a save inside {name} raised {type(ex).__name__}: {str(ex)[:120]}", case)
            continue
        keys = sorted(col)
        case["collected"] = keys
        if abs(float(res) - float(f(x))) > 1e-5:
            ctx.property_failure(None, f"state(f) changed the result with a save inside {name}", case)
        if keys != ["a", "b"]:
            ctx.property_failure("state-dropped-in-uninterpreted-call", f"a value saved inside {name} is missing from the collected dict (keys {keys}, saved a and b)",
                                 case, matches_asis=keys == ["b"])
        ctx.case(nontrivial_key=("uninterpreted-call", name))
        ctx.count("uninterpreted-call")


FIXED = [
    [("ns", "a", [("scan", [("tag", "x", 1)], 2)])],
    [("tag", "x", 1), ("scan", [("tag", "x", 2), ("tag", "y", 3)], 3, True), ("tag", "y", 4)],
    [("scan", [("ns", "a", [("tag", "x", 1)]), ("scan", [("tag", "y", 2)], 2)], 2)],
    [("ns", "a", [("tag", "x", 1)]), ("scan", [("ns", "a", [("tag", "y", 2)])], 2)],
    [("vmap", [("scan", [("tag", "x", 1)], 2)], 3, False), ("vmap", [("ns", "b", [("tag", "y", 2)])], 2, True)],
    [("ns", "a", [("ns", "b", [("leaf", 5)])]), ("ns", "a", [("tag", "z", 6)])],
    [("scan", [("vmap", [("tag", "x", 1)], 2, True)], 2)],
    # a scan body saving two namespace levels deep under a path that already holds OTHER names (saved before / by an earlier scan)
    [("ns", "a", [("ns", "b", [("tag", "x", 1)])]), ("scan", [("ns", "a", [("ns", "b", [("tag", "y", 2)])])], 2)],
    [("scan", [("ns", "d", [("ns", "c", [("tag", "x", 1)])])], 2), ("scan", [("ns", "d", [("ns", "c", [("tag", "y", 2)])])], 3)],
    [("ns", "a", [("ns", "b", [("ns", "c", [("tag", "z", 3)])])]), ("scan", [("ns", "a", [("ns", "b", [("ns", "c", [("tag", "x", 4)]), ("tag", "y", 5)])])], 2)],
    # saves inside nested jax.jit / jax.checkpoint helpers (a repaired defect: they were silently dropped), at top level, in a
    # namespace, in a scan body, under a map, nested in each other
    [("call", [("tag", "x", 1)], "jit")],
    [("call", [("tag", "x", 1), ("ns", "a", [("tag", "y", 2)])], "checkpoint"), ("tag", "z", 3)],
    [("ns", "a", [("call", [("tag", "x", 1)], "jit")]), ("scan", [("call", [("tag", "y", 2)], "jit")], 2)],
    [("vmap", [("call", [("tag", "x", 1)], "jit")], 2, True), ("vmap", [("call", [("tag", "y", 2)], "checkpoint")], 3, False)],
    [("call", [("call", [("tag", "x", 1)], "checkpoint"), ("scan", [("tag", "y", 2)], 2)], "jit")],
    [("tag", "x", 1), ("call", [("tag", "x", 2)], "jit")],
    # the call's ONLY saves sit in a scan body / namespace / map inside it (the walker must look through interpreted equations)
    [("call", [("scan", [("tag", "x", 1)], 2)], "jit")],
    [("ns", "a", [("call", [("other",), ("scan", [("ns", "b", [("tag", "x", 1)])], 3)], "checkpoint")])],
    [("vmap", [("call", [("scan", [("tag", "y", 2)], 2)], "jit")], 2, False), ("call", [("call", [("scan", [("scan", [("tag", "z", 3)], 2)], 2)], "jit")], "checkpoint")],
    # saves only in the INNER body of a nest of scans (nothing saved directly in the outer body), plain and namespaced
    [("scan", [("scan", [("tag", "x", 1)], 2)], 2)],
    [("ns", "a", [("scan", [("scan", [("ns", "b", [("tag", "x", 1)])], 3)], 2)])],
    [("scan", [("other",), ("scan", [("scan", [("tag", "y", 2)], 2)], 1)], 2)],
]


def shard(ctx, shard_i, n):
    import random
    G = impl.load()
    rng = random.Random(ctx.seed * 131 + shard_i)
    if shard_i == 0:
        wrapper_reuse(G, ctx)
        uninterpreted_calls(G, ctx)
        import interp_tie
        interp_tie.run_state(ctx, 30 if ctx.thorough else 10)
        for p in FIXED:
            check_prog(G, ctx, p)
    for _ in range(n):
        check_prog(G, ctx, gen_prog(rng, rng.choice([1, 2, 2, 3] if ctx.thorough else [1, 2, 2])),
                   modes=("eager", "jit", "seed") if rng.random() < 0.5 else ("eager", rng.choice(["jit", "seed"])))


def run(ctx, audit):
    ns, per = (14, 30) if ctx.thorough else (12, 6)
    common.run_sharded(ctx, "props.c19", "shard", [(i, per) for i in range(ns)])
    return {"rule": RULE}


def replay(ctx, payload):
    G = impl.load()
    c = payload.get("case") or {}
    def tup(x):
        return tuple(tup(y) if isinstance(y, list) and y and isinstance(y[0], str) else ([tup(z) for z in y] if isinstance(y, list) else y) for y in x)
    prog = [tup(s) for s in json.loads(c["prog"])]
    check_prog(G, ctx, prog)
    for i in ctx.issues:
        print("REPRODUCED:", i["what"])
    for k, h in ctx.known_hits.items():
        print("REPRODUCED (known finding):", h["what"])
    if not ctx.issues and not ctx.known_hits:
        print("not reproduced")
    return 1 if ctx.issues else 0
