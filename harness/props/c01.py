"""C01 — see DESIGN.md §3; generators in gfi_props.py, runner/monitors in gfi_run.py."""
import common
import gfi_run

RULE = "structural corpus first (gfi_corpus.py: 9 hand-built nestings - Cond over nested @gen at shared / disjoint addresses, Cond of Cond, Scan fed by an upstream choice, Cond in a Scan step, Vmap of nested fn, Vmap of Vmap, Scan of repeat, Cond of Scan, Vmap lanes with a Cond - each with a fixed op script incl. argument changes that flip the check); then random typed programs over probe distributions (fn/vmap/scan/cond nesting depth<=2 quick, <=3 thorough; <=4 call sites per body; lanes/steps 2-3); per program: simulate, assess on two random complete choice maps (one under perturbed args), simulate again; every op compared with the Lean model (exact rationals) and with an independent reference semantics; non-trivial = program with >=2 sites, distinct by program text"

SHARDS_QUICK, PER_SHARD_QUICK = 13, 5
SHARDS_THOROUGH, PER_SHARD_THOROUGH = 14, 18


def run(ctx, audit):
    ns, per = (SHARDS_THOROUGH, PER_SHARD_THOROUGH) if ctx.thorough else (SHARDS_QUICK, PER_SHARD_QUICK)
    common.run_sharded(ctx, "gfi_props", "shard_c01", [(i, per, ns) for i in range(ns)])
    extra(ctx)
    out = {"rule": RULE}
    if ctx.thorough:
        out["compat_selftest"] = common.compat_selftest()
    return out


def extra(ctx):
    import gfi_extras
    gfi_extras.c01_law(ctx, 30000 if ctx.thorough else 4000)
    gfi_extras.c01_modes(ctx)
    gfi_extras.c01_mixed_cond(ctx)
    gfi_extras.real_distribution_keyword_lanes(ctx, "C01")


def replay(ctx, payload):
    kind = (payload.get("case") or {}).get("kind")
    if kind in ("simulate-law", "modes"):
        extra(ctx)
        for i in ctx.issues:
            print("REPRODUCED:", i["what"])
        if not ctx.issues:
            print("not reproduced")
        return 1 if ctx.issues else 0
    return gfi_run.replay_case(ctx, payload, roundtrip=False)
