"""C02 — see DESIGN.md §3; generators in gfi_props.py, runner/monitors in gfi_run.py."""
import common
import gfi_run

RULE = "structural corpus first (gfi_corpus.py: 9 hand-built nestings - Cond over nested @gen at shared / disjoint addresses, Cond of Cond, Scan fed by an upstream choice, Cond in a Scan step, Vmap of nested fn, Vmap of Vmap, Scan of repeat, Cond of Scan, Vmap lanes with a Cond - each with a fixed op script incl. argument changes that flip the check); then random programs as C01; per program generate with all / none / three random partial subsets of the structural address set (partial inside Vmap/Scan/Cond sub-calls, whole sub-calls missing) and with None; monitors: constrained values kept, weight = sum of constrained site log densities, unconstrained sites = probe draw from conditional prior, coherence"

SHARDS_QUICK, PER_SHARD_QUICK = 13, 5
SHARDS_THOROUGH, PER_SHARD_THOROUGH = 14, 18


def run(ctx, audit):
    ns, per = (SHARDS_THOROUGH, PER_SHARD_THOROUGH) if ctx.thorough else (SHARDS_QUICK, PER_SHARD_QUICK)
    common.run_sharded(ctx, "gfi_props", "shard_c02", [(i, per, ns) for i in range(ns)])
    extra(ctx)
    import gfi_extras
    gfi_extras.cond_mixed_support(ctx, "C02")
    gfi_extras.real_distribution_keyword_lanes(ctx, "C02")
    return {"rule": RULE}


def extra(ctx):
    pass


def replay(ctx, payload):
    return gfi_run.replay_case(ctx, payload, roundtrip=False)
