"""C14 — unseeded sampling can never be compiled into a fixed-randomness program."""
import itertools
import json

import numpy as np

import common
import impl
import lowering
import sexp

RULE = ("EXHAUSTIVE enumeration of all placements of one sampling site inside nestings of {jit, scan, while_loop, fori_loop (static and dynamic "
        "trip count), cond, switch, grad, jax.vmap (site arguments batched / unbatched), modular_vmap, jax.checkpoint, custom_jvp (custom_vjp in a fixed depth<=2 family)} exhaustively up to depth 1 plus a sample of depth 2-3 (quick) / exhaustively up to depth 3 (thorough), for a plain and an ADEV sampling site, "
        "each executed on real JAX without seed and under seed (two keys, repeated call, jit of the seeded function): exception type or "
        "key-dependence of the result vs the property's requirement and vs the Lean decision model; plus random nestings of jit / checkpoint / custom_jvp / cond / scan / while around "
        "several sites and plain equations: the REAL jaxpr is translated into the interpreter model (Model/Interp.lean) - the code's sub-jaxpr walker vs the model's on every "
        "higher-order equation, seed raising vs the model's guarded interpreter; non-trivial = depth>=1")

FLAGS = ["grad-inlines-sampler", "vmap-unbatched-replicates"]


DEEP = [("grad", "mvmap", "jit"), ("grad", "mvmap", "jit", "scan"), ("grad", "mvmap", "scan", "jit"), ("grad", "mvmap", "cond", "jit"),
        ("grad", "jit", "mvmap", "jit"), ("jit", "grad", "mvmap", "jit"), ("grad", "mvmap", "mvmap", "jit"), ("grad", "mvmap", "jit", "mvmap"),
        ("grad", "scan", "mvmap", "jit"), ("grad", "mvmap", "scan"), ("grad", "vmap_u", "jit"), ("mvmap", "jit", "grad"), ("mvmap", "grad", "jit")]


# custom_vjp placements (the third opaque construct): alone, and once above / below every other construct
VJP = [("custom_vjp",)] + [p for c in lowering.CONSTRUCTS for p in (("custom_vjp", c), (c, "custom_vjp"))] + \
      [("mvmap", "custom_vjp", "vmap_b"), ("vmap_b", "mvmap", "custom_vjp"), ("scan", "mvmap", "custom_vjp"), ("grad", "mvmap", "custom_vjp"),
       # rule (ix): below a grad the custom rule runs inside whatever lies between (checkpoint stays opaque)
       ("grad", "vmap_b", "custom_vjp"), ("grad", "vmap_b", "custom_jvp"), ("grad", "vmap_b", "checkpoint"), ("vmap_b", "grad", "custom_vjp"),
       ("grad", "custom_vjp", "vmap_b"), ("grad", "vmap_u", "custom_jvp"), ("grad", "mvmap", "vmap_b", "custom_jvp"), ("jit", "grad", "vmap_b", "custom_jvp")]


def required_ok(placement, seeded, outcome):
    """the property's requirement, stated directly"""
    if outcome == "fixed" and not seeded and any(c in lowering.OPAQUE for c in placement):
        # nothing was compiled: an eager call of jax.checkpoint(f) re-evaluates the jaxpr JAX cached for `f`, in which the site's
        # trace-time key is a constant.  Not a compilation, so outside the property's statement; treated like the eager 'fresh'
        outcome = "fresh"
    has_compile = any(c in lowering.COMPILING for c in placement)
    plain_vmap = any(c in ("vmap_b", "vmap_u") for c in placement)
    if seeded:
        return outcome in ("key-function", "lowering-error", "batch-error")
    if outcome in ("lowering-error",):
        return True
    if outcome == "batch-error":
        return plain_vmap
    if outcome == "fresh":
        return not has_compile and not plain_vmap
    return False


def model_outcomes(placement):
    lines = [sexp.dumps(["lowering", cfg, list(placement)]) for cfg in ("TT", "FF", "TF", "FT")]
    outs = [sexp.loads(l) for l in common.driver_run(lines)]
    return {cfg: (o[1], o[2]) for cfg, o in zip(("TT", "FF", "TF", "FT"), outs)}


def shard(ctx, placements, kind="plain"):
    G = impl.load()
    known = {k["class"] for k in ctx.known}
    for pl in placements:
        pl = tuple(pl)
        m = model_outcomes(pl)
        for seeded in (False, True):
            got = lowering.classify(G, pl, seeded, kind)
            idx = 1 if seeded else 0
            case = {"kind": "placement", "site": kind, "placement": list(pl), "seeded": seeded, "outcome": got,
                    "model": {k: v[idx] for k, v in m.items()}}
            ok = required_ok(pl, seeded, got)
            if got == "fixed" and not seeded and any(c in lowering.OPAQUE for c in pl):
                got = "fresh"        # eager, uncompiled (see required_ok)
            expected_cfg = ("T" if FLAGS[0] in known else "F") + ("T" if FLAGS[1] in known else "F")
            if not ok:
                # which modelled deviation explains it?
                cls = None
                if got == m["TT"][idx]:
                    if got == m["TF"][idx] and got != m["FF"][idx]:
                        cls = FLAGS[0]
                    elif got == m["FT"][idx] and got != m["FF"][idx]:
                        cls = FLAGS[1]
                    elif got != m["FF"][idx]:
                        cls = FLAGS[0] if "grad" in pl else FLAGS[1]
                what = (f"seed({'∘'.join(pl) or 'site'}) gives '{got}'" if seeded else f"{'∘'.join(pl) or 'site'} gives '{got}'") + \
                       " - the property requires the lowering/batch error" + (" or a function of the key" if seeded else "")
                ctx.property_failure(cls, what, case, matches_asis=cls is not None)
            elif got != m[expected_cfg][idx] and not (got == "fresh" and m[expected_cfg][idx] == "fresh"):
                ctx.correspondence_break("Lowering.outcome/seeded vs JAX", f"model({expected_cfg}) says {m[expected_cfg][idx]}, implementation {got}", case)
            ctx.case(sample=case if ctx.coverage["evaluations"] % 41 == 0 else None,
                     nontrivial_key=(pl, seeded) if pl else None)
            ctx.count(("seeded:" if seeded else "plain:") + got)


def legal(pl):
    # JAX cannot reverse-differentiate while loops: grad above while / dynamic fori is not a legal placement
    return not any(c == "grad" and any(x in ("while", "fori_dyn") for x in pl[i + 1:]) for i, c in enumerate(pl))


def traced_key(ctx):
    """seed called with a TRACED key (jax.vmap over keys, eager and under jit): every lane must be the seeded function of that lane's key,
    or the call raises - for plain sites and for sites inside constructs seed does not interpret (checkpoint, custom_jvp, custom_vjp, jit, while)"""
    import jax
    import jax.numpy as jnp
    import jax.random as jr
    from genjax.pjax import LoweringSamplePrimitiveToMLIRException
    G = impl.load()
    x = jnp.float32(0.5)
    keys = jr.split(jr.key(7), 3)
    for pl in [(), ("scan",), ("cond",), ("checkpoint",), ("custom_jvp",), ("custom_vjp",), ("jit",), ("while",), ("scan", "checkpoint"), ("checkpoint", "scan"),
               ("cond", "custom_jvp"), ("mvmap", "checkpoint"), ("checkpoint", "mvmap")]:
        m = model_outcomes(pl)["TT"][1]
        for mode in ("eager", "jit"):
            case = {"kind": "traced-key", "placement": list(pl), "mode": mode, "model": m}
            try:
                h = G.seed(lowering.build(G, pl))
                v = jax.vmap(h, in_axes=(0, None))
                out = np.asarray((jax.jit(v) if mode == "jit" else v)(keys, x), dtype=np.float64)
                got = "key-function" if len(set(out.tolist())) == out.size else "key-ignored"
                case["values"] = out.tolist()
            except LoweringSamplePrimitiveToMLIRException:
                impl.reset_handlers()
                got = "lowering-error"
            except NotImplementedError as ex:
                impl.reset_handlers()
                got = "batch-error" if "modular_vmap" in str(ex) else "other-error:NotImplementedError"
            except Exception as ex:
                impl.reset_handlers()
                got = "other-error:" + type(ex).__name__
            case["outcome"] = got
            if got not in ("key-function", "lowering-error", "batch-error"):
                ctx.property_failure(None, f"vmap over keys of seed({'∘'.join(pl) or 'site'}) ({mode}) gives '{got}' - the property requires a function of the key or the lowering error", case)
            elif got != m:
                ctx.correspondence_break("Lowering.seeded vs seed with a traced key", f"model says {m}, implementation {got}", case)
            ctx.case(nontrivial_key=("traced-key", pl, mode))
            ctx.count("traced-key:" + got)


def run(ctx, audit):
    C = lowering.CONSTRUCTS
    all_ = {d: [p for p in itertools.product(C, repeat=d) if legal(p)] for d in range(4)}
    if ctx.thorough:
        pls = all_[0] + all_[1] + all_[2] + all_[3]
        exhaustive_depth = 3
    else:
        d2, d3 = list(all_[2]), list(all_[3])
        ctx.rng.shuffle(d2)
        ctx.rng.shuffle(d3)
        pls = all_[0] + all_[1] + d2[:34] + d3[:10]
        exhaustive_depth = 1
    # depth-4 placements around rule (vii) of the model (modular_vmap over a nested jit under grad), always run
    pls = pls + [p for p in DEEP + VJP if p not in pls and legal(p)]
    adev = all_[0] + [p for p in all_[1] if p[0] != "grad"] + ([p for p in all_[2] if "grad" not in p][::5] if ctx.thorough else [])
    n = 13
    shards = [(pls[i::n], "plain") for i in range(n)] + [(adev, "adev")]
    common.run_sharded(ctx, "props.c14", "shard", shards)
    # the Seed interpreter as an interpreter: real jaxprs translated into Model/Interp.lean
    import interp_tie
    interp_tie.run_seed(ctx, 40 if ctx.thorough else 12)
    traced_key(ctx)
    return {"rule": RULE, "exhaustive": True, "exhaustive_to_depth": exhaustive_depth, "placements": len(pls), "adev_site_placements": len(adev)}


def replay(ctx, payload):
    c = payload.get("case") or {}
    shard(ctx, [c.get("placement", [])], c.get("site", "plain"))
    for i in ctx.issues:
        print("REPRODUCED:", i["what"])
    for k, h in ctx.known_hits.items():
        print("REPRODUCED (known finding):", h["what"])
    if not ctx.issues and not ctx.known_hits:
        print("not reproduced")
    return 1 if ctx.issues else 0
