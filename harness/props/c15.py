"""C15 — on deterministic code ADEV is ordinary forward-mode AD, for any argument shape."""
import json
import random

import numpy as np

import common
import impl
import sexp

RULE = ("generated deterministic JAX programs (arithmetic, transcendental, indexing / slicing / dynamic index, reductions, dot / matmul / transpose, "
        "where / clip / abs with integer and boolean intermediates, dtype casts, complex intermediates, lax.cond with either branch, scan / "
        "fori_loop with integer counters) over scalar, vector, matrix and pytree arguments: jvp_estimate vs jax.jvp, grad_estimate vs "
        "jax.grad, estimate vs the function value; straight-line programs also vs the Lean interpreter model; non-trivial = every (program, "
        "argument); distinct by program text and argument shapes")


def corpus():
    """(name, source of a function of jnp-array args, arg shapes); every function returns a scalar"""
    import jax
    import jax.numpy as jnp
    L = []

    def add(name, f, *shapes):
        L.append((name, f, shapes))
    add("poly", lambda x: x * x * 3.0 - 2.0 * x + 1.0, ())
    add("trig", lambda x: jnp.sin(x) * jnp.exp(-x * x) + jnp.log1p(x * x), ())
    add("two-args", lambda x, y: x * y + jnp.tanh(x - y), (), ())
    add("vec-sum", lambda v: jnp.sum(v * v) + jnp.prod(v[:2]), (3,))
    add("mat-dot-T", lambda m: jnp.sum(jnp.dot(m, m.T)), (2, 3))
    add("matvec", lambda m, v: jnp.sum(m @ v) * jnp.max(v), (2, 3), (3,))
    add("transpose-slice", lambda m: jnp.sum(m.T[1:, :1] * 2.0) + m[0, 2], (2, 3))
    add("static-index", lambda v: v[0] * v[2] - v[1] ** 3, (3,))
    add("int-index", lambda v: v[jnp.argmax(v)] * 2.0 + jnp.take(v, jnp.array([0, 2])).sum(), (3,))
    add("dynamic-slice", lambda v: jax.lax.dynamic_slice(v, (jnp.int32(1),), (2,)).sum() * v[0], (3,))
    add("where-mask", lambda v: jnp.sum(jnp.where(v > 0.2, v * v, -v)), (3,))
    add("clip-abs", lambda v: jnp.sum(jnp.clip(v, -0.5, 0.5)) + jnp.sum(jnp.abs(v)), (3,))
    add("bool-int-cast", lambda x: x * (x > 0).astype(jnp.float32) + jnp.floor(x).astype(jnp.int32).astype(jnp.float32) * 0.0 + x ** 2, ())
    add("dtype-f16", lambda x: (x.astype(jnp.float16) * 2).astype(jnp.float32) + x, ())
    add("complex", lambda x: jnp.real(jnp.exp(1j * x) * (1.0 + 2.0j)) + x, ())
    add("cond-true", lambda x: jax.lax.cond(x > -10.0, lambda: x * x, lambda: -x), ())
    add("cond-false", lambda x: jax.lax.cond(x > 10.0, lambda: x * x, lambda: jnp.sin(x) * x), ())
    add("cond-operand", lambda x, v: jax.lax.cond(v[0] > 0, lambda a: jnp.sum(a) * x, lambda a: jnp.prod(a) - x, v), (), (3,))
    add("scan-counter", lambda x: jax.lax.scan(lambda c, i: (c * x + i.astype(jnp.float32), c), 1.0, jnp.arange(3))[0], ())
    add("fori", lambda x: jax.lax.fori_loop(0, 3, lambda i, a: a * x + i, 1.0), ())
    add("pytree", lambda d: jnp.sum(d["a"] * d["b"][0]) + d["c"], {"a": (2,), "b": (1, 2), "c": ()})
    add("linalg", lambda m: jnp.linalg.det(m @ m.T + jnp.eye(2)) + jnp.trace(m @ m.T), (2, 3))
    add("softmax-logsumexp", lambda v: jax.nn.logsumexp(v) + jnp.sum(jax.nn.softmax(v) * v), (3,))
    add("reshape-concat", lambda m: jnp.sum(jnp.concatenate([m.reshape(-1), m[0]]) ** 2), (2, 3))
    add("cumsum-sort", lambda v: jnp.sum(jnp.cumsum(v) * jnp.sort(v)), (3,))
    return L


def make_arg(rng, shape):
    import jax.numpy as jnp
    if isinstance(shape, dict):
        return {k: make_arg(rng, s) for k, s in shape.items()}
    n = int(np.prod(shape)) if shape else 1
    vals = np.array([rng.choice([-0.75, -0.3, 0.25, 0.4, 0.9, 1.3]) + 0.01 * i for i in range(n)], dtype=np.float32).reshape(shape)
    return jnp.asarray(vals)


def check_one(G, ctx, name, f, shapes, rng):
    import jax
    import jax.numpy as jnp
    import jax.tree_util as jtu
    import genjax.adev as A
    args = tuple(make_arg(rng, s) for s in shapes)
    tans = jtu.tree_map(lambda a: jnp.asarray(np.array([rng.choice([-1.0, 0.5, 1.0]) for _ in range(a.size)], dtype=np.float32).reshape(a.shape)), args)
    case = {"kind": "det-program", "program": name, "args": jtu.tree_map(lambda a: np.asarray(a).tolist(), args)}
    e = A.expectation(f)
    try:
        want_p, want_t = jax.jvp(f, args, tans)
        want_g = jax.grad(f, argnums=tuple(range(len(args))))(*args)
    except Exception as ex:
        return
    tol = lambda w: 2e-4 * (1 + abs(float(w)))
    try:
        d = e.jvp_estimate(*A.Dual.dual_tree(args, tans))
        if abs(float(d.primal) - float(want_p)) > tol(want_p) or abs(float(d.tangent) - float(want_t)) > tol(want_t):
            ctx.property_failure(None, f"{name}: jvp_estimate ({float(d.primal)}, {float(d.tangent)}) != jax.jvp ({float(want_p)}, {float(want_t)})", case)
    except Exception as ex:
        ctx.property_failure(None, f"{name}: jvp_estimate raised {type(ex).__name__}: {str(ex)[:160]}", case)
    try:
        g = e.grad_estimate(*args)
        g = g if len(args) > 1 else (g,)
        la, lb = jtu.tree_leaves(g), jtu.tree_leaves(want_g)
        if len(la) != len(lb) or any(np.shape(a) != np.shape(b) or not np.allclose(np.asarray(a), np.asarray(b), rtol=2e-4, atol=2e-4) for a, b in zip(la, lb)):
            ctx.property_failure(None, f"{name}: grad_estimate differs from jax.grad", {**case, "grad_estimate": [np.asarray(a).tolist() for a in la], "jax_grad": [np.asarray(b).tolist() for b in lb]})
    except Exception as ex:
        ctx.property_failure(None, f"{name}: grad_estimate raised {type(ex).__name__}: {str(ex)[:160]}", case)
    try:
        v = e.estimate(*args)
        if abs(float(v) - float(f(*args))) > tol(f(*args)):
            ctx.property_failure(None, f"{name}: estimate {float(v)} != f(args) {float(f(*args))}", case)
    except Exception as ex:
        ctx.property_failure(None, f"{name}: estimate raised {type(ex).__name__}: {str(ex)[:160]}", case)
    ctx.case(sample={"kind": "det-program", "program": name} if ctx.coverage["evaluations"] % 6 == 0 else None,
             nontrivial_key=(name, json.dumps(case["args"])))
    ctx.count("det:" + name)


def straight_line_model(G, ctx, rng):
    """random straight-line programs (const/add/sub/mul/neg/cond) run through expectation(...) and through the Lean CPS/JVP model"""
    import jax
    import jax.numpy as jnp
    import genjax.adev as A
    from fractions import Fraction as Fr
    n_in = 2
    eqns = []
    for k in range(rng.randint(3, 7)):
        m = n_in + len(eqns)
        op = rng.choice(["add", "sub", "mul", "neg", "const", "cond"])
        if op == "const":
            eqns.append(("const", Fr(rng.randint(-4, 4), 2)))
        elif op == "neg":
            eqns.append(("neg", rng.randrange(m)))
        elif op == "cond":
            eqns.append(("cond", rng.randrange(m), rng.randrange(m), rng.randrange(m)))
        else:
            eqns.append((op, rng.randrange(m), rng.randrange(m)))

    def f(x, y):
        env = [x, y]
        for e in eqns:
            if e[0] == "const":
                env.append(jnp.float32(float(e[1])) + 0.0 * x)
            elif e[0] == "neg":
                env.append(-env[e[1]])
            elif e[0] == "cond":
                env.append(jax.lax.cond(env[e[1]] > 0, lambda a, b: a, lambda a, b: b, env[e[2]], env[e[3]]))
            elif e[0] == "add":
                env.append(env[e[1]] + env[e[2]])
            elif e[0] == "sub":
                env.append(env[e[1]] - env[e[2]])
            else:
                env.append(env[e[1]] * env[e[2]])
        return env[-1]
    xv, yv = Fr(rng.randint(-6, 6), 4), Fr(rng.randint(-6, 6), 4)
    d = A.expectation(f).jvp_estimate(A.Dual(jnp.float32(float(xv)), jnp.float32(1.0)), A.Dual(jnp.float32(float(yv)), jnp.float32(0.5)))
    line = sexp.dumps(["adev-det", [[e[0]] + [x for x in e[1:]] for e in eqns], [[xv, Fr(1)], [yv, Fr(1, 2)]]])
    r = sexp.loads(common.driver_run([line])[0])
    mv, md = float(Fr(r[1])), float(Fr(r[2]))
    case = {"kind": "straight-line", "eqns": [[str(x) for x in e] for e in eqns], "x": str(xv), "y": str(yv)}
    if r[3] != "T":
        ctx.correspondence_break("Adev.adevEval = Adev.jvpEval (driver self-check)", str(r), case)
    if abs(mv - float(d.primal)) > 1e-4 * (1 + abs(mv)) or abs(md - float(d.tangent)) > 1e-4 * (1 + abs(md)):
        ctx.correspondence_break("Adev.adevEval vs expectation(f).jvp_estimate", f"model ({mv},{md}) impl ({float(d.primal)},{float(d.tangent)})", case)
    ctx.case(nontrivial_key=("sl", json.dumps(case["eqns"])))
    ctx.count("straight-line-model")


def run(ctx, audit):
    G = impl.load()
    rng = ctx.rng
    for name, f, shapes in corpus():
        for rep in range(3 if ctx.thorough else 1):
            check_one(G, ctx, name, f, shapes, rng)
    for _ in range(60 if ctx.thorough else 15):
        straight_line_model(G, ctx, rng)
    return {"rule": RULE}


def replay(ctx, payload):
    G = impl.load()
    c = payload.get("case") or {}
    rng = random.Random(0)
    for name, f, shapes in corpus():
        if name == c.get("program") or c.get("kind") != "det-program":
            check_one(G, ctx, name, f, shapes, rng)
    for i in ctx.issues:
        print("REPRODUCED:", i["what"])
    if not ctx.issues:
        print("not reproduced")
    return 1 if ctx.issues else 0
