"""C15 — on deterministic code ADEV is ordinary forward-mode AD, for any argument shape."""
import json
import random

import numpy as np

import adevdet2 as D
import common
import impl
import sexp

RULE = ("generated deterministic JAX programs (arithmetic, transcendental, indexing / slicing / dynamic index, reductions, dot / matmul / transpose, "
        "where / clip / abs with integer and boolean intermediates, dtype casts, complex intermediates, lax.cond with either branch, scan / "
        "fori_loop with integer counters) over scalar, vector, matrix and pytree arguments: jvp_estimate vs jax.jvp, grad_estimate vs "
        "jax.grad, estimate vs the function value; straight-line programs also vs the Lean interpreter model; non-trivial = every (program, "
        "argument); distinct by program text and argument shapes; random programs of the richer model language (Model/AdevDet2.lean: "
        "float / discrete values, zero-tangent and int inputs, select / comparisons / floor / int arithmetic, mixed-output jitted "
        "helpers, scan with (counter, value) carries, cond with sub-programs, nested) vs the Lean interpreter model under Cfg.code AND "
        "vs jax.jvp, plus the proved counterexample witnesses of the wrong fast-path conditions")


def corpus():
    """(name, source of a function of jnp-array args, arg shapes); every function returns a scalar"""
    import jax
    import jax.numpy as jnp
    L = []

    def add(name, f, *shapes):
        L.append((name, f, shapes))
    add("poly", lambda x: x * x * 3.0 - 2.0 * x + 1.0, ())
    add("trig", lambda x: jnp.sin(x) * jnp.exp(-x * x) + jnp.log1p(x * x), ())
    add("two-args", lambda x, y: x * y + jnp.tanh(x - y), (), ())
    add("vec-sum", lambda v: jnp.sum(v * v) + jnp.prod(v[:2]), (3,))
    add("mat-dot-T", lambda m: jnp.sum(jnp.dot(m, m.T)), (2, 3))
    add("matvec", lambda m, v: jnp.sum(m @ v) * jnp.max(v), (2, 3), (3,))
    add("transpose-slice", lambda m: jnp.sum(m.T[1:, :1] * 2.0) + m[0, 2], (2, 3))
    add("static-index", lambda v: v[0] * v[2] - v[1] ** 3, (3,))
    add("int-index", lambda v: v[jnp.argmax(v)] * 2.0 + jnp.take(v, jnp.array([0, 2])).sum(), (3,))
    add("dynamic-slice", lambda v: jax.lax.dynamic_slice(v, (jnp.int32(1),), (2,)).sum() * v[0], (3,))
    add("where-mask", lambda v: jnp.sum(jnp.where(v > 0.2, v * v, -v)), (3,))
    add("clip-abs", lambda v: jnp.sum(jnp.clip(v, -0.5, 0.5)) + jnp.sum(jnp.abs(v)), (3,))
    add("bool-int-cast", lambda x: x * (x > 0).astype(jnp.float32) + jnp.floor(x).astype(jnp.int32).astype(jnp.float32) * 0.0 + x ** 2, ())
    add("dtype-f16", lambda x: (x.astype(jnp.float16) * 2).astype(jnp.float32) + x, ())
    add("complex", lambda x: jnp.real(jnp.exp(1j * x) * (1.0 + 2.0j)) + x, ())
    add("cond-true", lambda x: jax.lax.cond(x > -10.0, lambda: x * x, lambda: -x), ())
    add("cond-false", lambda x: jax.lax.cond(x > 10.0, lambda: x * x, lambda: jnp.sin(x) * x), ())
    add("cond-operand", lambda x, v: jax.lax.cond(v[0] > 0, lambda a: jnp.sum(a) * x, lambda a: jnp.prod(a) - x, v), (), (3,))
    add("scan-counter", lambda x: jax.lax.scan(lambda c, i: (c * x + i.astype(jnp.float32), c), 1.0, jnp.arange(3))[0], ())
    add("fori", lambda x: jax.lax.fori_loop(0, 3, lambda i, a: a * x + i, 1.0), ())
    add("pytree", lambda d: jnp.sum(d["a"] * d["b"][0]) + d["c"], {"a": (2,), "b": (1, 2), "c": ()})
    add("linalg", lambda m: jnp.linalg.det(m @ m.T + jnp.eye(2)) + jnp.trace(m @ m.T), (2, 3))
    add("softmax-logsumexp", lambda v: jax.nn.logsumexp(v) + jnp.sum(jax.nn.softmax(v) * v), (3,))
    add("reshape-concat", lambda m: jnp.sum(jnp.concatenate([m.reshape(-1), m[0]]) ** 2), (2, 3))
    add("cumsum-sort", lambda v: jnp.sum(jnp.cumsum(v) * jnp.sort(v)), (3,))
    # ARRAY-valued symbolic-zero tangents (round / floor / sign / stop_gradient) consumed by shape-sensitive primitives (seeded C15_8)
    add("symzero-dot", lambda v: jnp.dot(jnp.sign(v), v), (3,))
    add("symzero-matT", lambda m: jnp.sum(jnp.floor(m * 3.0).T @ m), (2, 3))
    add("symzero-slice", lambda v: jnp.sum(jax.lax.stop_gradient(v)[1:] * v[:2]), (3,))
    add("symzero-straight-through", lambda v: jnp.sum((v + jax.lax.stop_gradient(jnp.round(v * 2.0) - v)) ** 2), (3,))
    add("symzero-reduce-reshape", lambda m: jnp.sum(jnp.ceil(m).reshape(3, 2)[1:] + m.reshape(3, 2)[:2] ** 2), (2, 3))
    return L


def make_arg(rng, shape):
    import jax.numpy as jnp
    if isinstance(shape, dict):
        return {k: make_arg(rng, s) for k, s in shape.items()}
    n = int(np.prod(shape)) if shape else 1
    vals = np.array([rng.choice([-0.75, -0.3, 0.25, 0.4, 0.9, 1.3]) + 0.01 * i for i in range(n)], dtype=np.float32).reshape(shape)
    return jnp.asarray(vals)


def check_one(G, ctx, name, f, shapes, rng):
    import jax
    import jax.numpy as jnp
    import jax.tree_util as jtu
    import genjax.adev as A
    args = tuple(make_arg(rng, s) for s in shapes)
    tans = jtu.tree_map(lambda a: jnp.asarray(np.array([rng.choice([-1.0, 0.5, 1.0]) for _ in range(a.size)], dtype=np.float32).reshape(a.shape)), args)
    case = {"kind": "det-program", "program": name, "args": jtu.tree_map(lambda a: np.asarray(a).tolist(), args)}
    e = A.expectation(f)
    try:
        want_p, want_t = jax.jvp(f, args, tans)
        want_g = jax.grad(f, argnums=tuple(range(len(args))))(*args)
    except Exception as ex:
        return
    tol = lambda w: 2e-4 * (1 + abs(float(w)))
    try:
        d = e.jvp_estimate(*A.Dual.dual_tree(args, tans))
        if abs(float(d.primal) - float(want_p)) > tol(want_p) or abs(float(d.tangent) - float(want_t)) > tol(want_t):
            ctx.property_failure(None, f"{name}: jvp_estimate ({float(d.primal)}, {float(d.tangent)}) != jax.jvp ({float(want_p)}, {float(want_t)})", case)
    except Exception as ex:
        ctx.property_failure(None, f"{name}: jvp_estimate raised {type(ex).__name__}: {str(ex)[:160]}", case)
    try:
        g = e.grad_estimate(*args)
        g = g if len(args) > 1 else (g,)
        la, lb = jtu.tree_leaves(g), jtu.tree_leaves(want_g)
        if len(la) != len(lb) or any(np.shape(a) != np.shape(b) or not np.allclose(np.asarray(a), np.asarray(b), rtol=2e-4, atol=2e-4) for a, b in zip(la, lb)):
            ctx.property_failure(None, f"{name}: grad_estimate differs from jax.grad", {**case, "grad_estimate": [np.asarray(a).tolist() for a in la], "jax_grad": [np.asarray(b).tolist() for b in lb]})
    except Exception as ex:
        ctx.property_failure(None, f"{name}: grad_estimate raised {type(ex).__name__}: {str(ex)[:160]}", case)
    try:
        v = e.estimate(*args)
        if abs(float(v) - float(f(*args))) > tol(f(*args)):
            ctx.property_failure(None, f"{name}: estimate {float(v)} != f(args) {float(f(*args))}", case)
    except Exception as ex:
        ctx.property_failure(None, f"{name}: estimate raised {type(ex).__name__}: {str(ex)[:160]}", case)
    ctx.case(sample={"kind": "det-program", "program": name} if ctx.coverage["evaluations"] % 6 == 0 else None,
             nontrivial_key=(name, json.dumps(case["args"])))
    ctx.count("det:" + name)


def straight_line_model(G, ctx, rng):
    """random straight-line programs (const/add/sub/mul/neg/cond) run through expectation(...) and through the Lean CPS/JVP model"""
    import jax
    import jax.numpy as jnp
    import genjax.adev as A
    from fractions import Fraction as Fr
    n_in = 2
    eqns = []
    for k in range(rng.randint(3, 7)):
        m = n_in + len(eqns)
        op = rng.choice(["add", "sub", "mul", "neg", "const", "cond"])
        if op == "const":
            eqns.append(("const", Fr(rng.randint(-4, 4), 2)))
        elif op == "neg":
            eqns.append(("neg", rng.randrange(m)))
        elif op == "cond":
            eqns.append(("cond", rng.randrange(m), rng.randrange(m), rng.randrange(m)))
        else:
            eqns.append((op, rng.randrange(m), rng.randrange(m)))

    def f(x, y):
        env = [x, y]
        for e in eqns:
            if e[0] == "const":
                env.append(jnp.float32(float(e[1])) + 0.0 * x)
            elif e[0] == "neg":
                env.append(-env[e[1]])
            elif e[0] == "cond":
                env.append(jax.lax.cond(env[e[1]] > 0, lambda a, b: a, lambda a, b: b, env[e[2]], env[e[3]]))
            elif e[0] == "add":
                env.append(env[e[1]] + env[e[2]])
            elif e[0] == "sub":
                env.append(env[e[1]] - env[e[2]])
            else:
                env.append(env[e[1]] * env[e[2]])
        return env[-1]
    xv, yv = Fr(rng.randint(-6, 6), 4), Fr(rng.randint(-6, 6), 4)
    d = A.expectation(f).jvp_estimate(A.Dual(jnp.float32(float(xv)), jnp.float32(1.0)), A.Dual(jnp.float32(float(yv)), jnp.float32(0.5)))
    line = sexp.dumps(["adev-det", [[e[0]] + [x for x in e[1:]] for e in eqns], [[xv, Fr(1)], [yv, Fr(1, 2)]]])
    r = sexp.loads(common.driver_run([line])[0])
    mv, md = float(Fr(r[1])), float(Fr(r[2]))
    case = {"kind": "straight-line", "eqns": [[str(x) for x in e] for e in eqns], "x": str(xv), "y": str(yv)}
    if r[3] != "T":
        ctx.correspondence_break("Adev.adevEval = Adev.jvpEval (driver self-check)", str(r), case)
    if abs(mv - float(d.primal)) > 1e-4 * (1 + abs(mv)) or abs(md - float(d.tangent)) > 1e-4 * (1 + abs(md)):
        ctx.correspondence_break("Adev.adevEval vs expectation(f).jvp_estimate", f"model ({mv},{md}) impl ({float(d.primal)},{float(d.tangent)})", case)
    ctx.case(nontrivial_key=("sl", json.dumps(case["eqns"])))
    ctx.count("straight-line-model")


# ----------------------------------------------------------------------------- richer language (Model/AdevDet2.lean)


def _model2(cfg, prog, out, env_s):
    r = sexp.loads(common.driver_run([sexp.dumps(["adev-det2", cfg, D.to_sexp(prog), out, env_s])])[0])
    if r[0] != "ok":
        raise common.Infra(f"adev-det2 rejected its input: {r}")
    return r


def rich_case(G, ctx, name, prog, out, kinds, vals, tans, proved=None):
    """one program of the richer language: expectation(f).jvp_estimate vs the Lean model (Cfg.code) and vs jax.jvp"""
    import jax
    import jax.numpy as jnp
    import genjax.adev as A
    from fractions import Fraction as Fr
    f = D.build_jax(prog, out)
    args = tuple(jnp.float32(float(v)) if k == "f" else jnp.int32(int(v)) for k, v in zip(kinds, vals))
    jt = tuple(jnp.float32(float(t)) if k == "f" else np.zeros((), dtype=jax.dtypes.float0) for k, t in zip(kinds, tans))
    text = sexp.dumps(D.to_sexp(prog))
    case = {"kind": "rich-program", "name": name, "program": text, "out": out, "kinds": "".join(kinds),
            "values": [str(v) for v in vals], "tangents": [str(t) for t in tans]}
    r = _model2("code", prog, out, D.env_sexp(kinds, vals, tans))
    mv, md = float(Fr(r[1][1])), float(Fr(r[1][2]))
    jv, jd = float(Fr(r[2][1])), float(Fr(r[2][2]))
    if r[3] != "T" or r[4] != "T" or r[5] != "T":
        ctx.correspondence_break("Adev2 driver self-check (adevRun = jvpRun under Cfg.code, CPS = direct style, discrete entries carry float0)",
                                 str(r[:6]), case)
    if proved is not None and (Fr(r[1][1]), Fr(r[1][2])) != proved:
        ctx.correspondence_break("Adev2 driver vs the proved witness value (Proofs/AdevDet2Table.lean)", f"driver {r[1]} proved {proved}", case)
    try:
        want_p, want_t = jax.jvp(f, args, jt)
        want_p, want_t = float(want_p), float(want_t)
    except Exception as ex:
        ctx.count("rich:jax-raised")
        return
    tolm = lambda m: 1e-4 * (1 + abs(m))
    if abs(jv - want_p) > tolm(jv) or abs(jd - want_t) > tolm(jd):
        ctx.correspondence_break("Adev2.jvpRun (the table's JVP rules) vs jax.jvp", f"model ({jv},{jd}) jax.jvp ({want_p},{want_t})", case)
    try:
        d = A.expectation(f).jvp_estimate(*[A.Dual(a, t) for a, t in zip(args, jt)])
        gp, gt = float(d.primal), float(d.tangent)
    except Exception as ex:
        ctx.property_failure(None, f"{name}: jvp_estimate raised {type(ex).__name__}: {str(ex)[:160]}", case)
        impl.reset_handlers()
        return
    if abs(mv - gp) > tolm(mv) or abs(md - gt) > tolm(md):
        which = []
        for cfg in ("any", "discrete-out"):
            o = _model2(cfg, prog, out, D.env_sexp(kinds, vals, tans))[1]
            if abs(float(Fr(o[1])) - gp) <= tolm(gp) and abs(float(Fr(o[2])) - gt) <= tolm(gt):
                which.append(cfg)
        ctx.correspondence_break("Adev2.adevRun Cfg.code vs expectation(f).jvp_estimate",
                                 f"model ({mv},{md}) impl ({gp},{gt})" + (f"; the implementation matches Cfg {'/'.join(which)}" if which else ""), case)
    tol = lambda w: 2e-4 * (1 + abs(w))
    if abs(gp - want_p) > tol(want_p) or abs(gt - want_t) > tol(want_t):
        ctx.property_failure(None, f"{name}: jvp_estimate ({gp}, {gt}) != jax.jvp ({want_p}, {want_t}) on a program of the richer language", case)
    ctx.case(sample={"kind": "rich-program", "program": text[:300]} if ctx.coverage["evaluations"] % 9 == 0 else None,
             nontrivial_key=("rich", text, json.dumps(case["values"]), json.dumps(case["tangents"])))
    ctx.count("rich-program")
    for key in D.shape(prog, kinds):
        ctx.count("rich:" + key)
    if "i" in kinds:
        ctx.count("rich:int-input")
    if any(k == "f" and t == 0 for k, t in zip(kinds, tans)):
        ctx.count("rich:zero-tangent-input")


def rich_witnesses(G, ctx):
    """the proved counterexample programs of Proofs/AdevDet2Table.lean, replayed on the implementation (which must agree with Cfg.code)"""
    for name, prog, out, kinds, vals, tans, proved in D.WITNESSES:
        rich_case(G, ctx, "witness:" + name, prog, out, list(kinds), vals, tans, proved=proved)


def rich_random(G, ctx, rng):
    from fractions import Fraction as Fr
    for _try in range(60):
        kinds = list("ffi") if rng.random() < 0.4 else list("ff")
        prog = D.gen_prog(rng, kinds, 2, rng.randint(4, 9))
        vals = [Fr(2 * rng.randint(-7, 6) + 1, 8) if k == "f" else rng.randint(-1, 3) for k in kinds]
        if not D.interp_safe(prog, kinds):
            ctx.count("rich:rejected-known-interpreter-limits")
            continue
        try:
            env = D.eval_frac(prog, vals)
        except D.IllConditioned as ex:
            ctx.count("rich:rejected-ill-conditioned")
            continue
        tans = [rng.choice([Fr(1), Fr(1, 2), Fr(-1), Fr(0)]) if k == "f" else None for k in kinds]
        if all(t in (None, 0) for t in tans):
            tans[0] = Fr(1)
        rich_case(G, ctx, "random", prog, len(env) - 1, kinds, vals, tans)
        return


def python_scalar_arguments(G, ctx):
    """arguments given as Python floats / ints are WEAKLY typed in JAX: combined with narrower arrays (float16, bfloat16, int8, uint8)
    the result keeps the narrow dtype.  estimate / jvp_estimate must agree with the plain call / jax.jvp in dtype and value."""
    import jax
    import jax.numpy as jnp
    A = __import__("genjax.adev", fromlist=["x"])
    h = jnp.arange(6, dtype=jnp.float16).reshape(3, 2) * 0.5
    u8 = jnp.arange(7, dtype=jnp.uint8) * 30
    fams = [
        ("python-float * float16 array", lambda x: jnp.sum(x * h), 300.0),
        ("python-int * uint8 array", lambda n: jnp.sum(n * u8), 3),
        ("python-float + bfloat16 array", lambda x: jnp.sum(jnp.asarray([1.5, 2.25], jnp.bfloat16) + x), 0.1),
        ("pytree with python int and int8 array", lambda d: jnp.sum(d["k"] * d["a"]), {"k": 100, "a": jnp.array([3, -2], jnp.int8)}),
        ("python-float * float32 array (control)", lambda x: jnp.sum(x * jnp.arange(3.0)), 2.5),
    ]
    for name, f, arg in fams:
        case = {"kind": "python-scalar-argument", "program": name}
        try:
            want = f(arg)
            got = A.expectation(f).estimate(arg)
            w, g = np.asarray(want), np.asarray(got)
            if w.dtype != g.dtype or not np.array_equal(w.astype(np.float64), g.astype(np.float64), equal_nan=True):
                ctx.property_failure(None, f"{name}: estimate gives {g.tolist()} ({g.dtype}), the function itself {w.tolist()} ({w.dtype}) - a Python scalar argument was not kept weakly typed",
                                     {**case, "estimate": [str(g.dtype), g.tolist()], "plain": [str(w.dtype), w.tolist()]})
        except Exception as ex:
            impl.reset_handlers()
            ctx.property_failure(None, f"{name} raised {type(ex).__name__}: {str(ex)[:160]}", case)
        ctx.case(sample=case if "uint8" in name else None, nontrivial_key=("python-scalar", name))
        ctx.count("python-scalar-argument")


def interpreter_limits(G, ctx):
    """Deterministic programs that jax.jvp differentiates and the ADEV interpreter did NOT handle (three repaired defects, each a loud
    exception; found while extending the model to multi-output equations / cond / loops): a cond branch with several / no outputs
    (fix c02ba82), a constant cond operand (fix 00a3509), an integer output of a jitted helper carried through a scan (fix 3a42c1e).
    Value, tangent and gradient are compared with jax.jvp / jax.grad on both sides of the cond."""
    import jax
    import jax.numpy as jnp
    A = G.adev if hasattr(G, "adev") else __import__("genjax.adev", fromlist=["x"])

    def f_two(x):
        a, b = jax.lax.cond(x > 0.5, lambda: (x * 2.0, x * x), lambda: (x, x + 1.0))
        return a + b

    def f_ident(x):
        return jax.lax.cond(x > 0.5, lambda z: z, lambda z: z, x) * 3.0

    def f_lit(x):
        return jax.lax.cond(x > 0.5, lambda c: x * c, lambda c: x + c, 2.0)

    def f_int(x):
        @jax.jit
        def h(y):
            return (jnp.floor(y).astype(jnp.int32), y * y)
        i, v = h(x)
        (i2, v2), _ = jax.lax.scan(lambda c, t: ((c[0] + 1, c[1] * 1.5), t), (i, v), jnp.arange(2.0))
        return v2 + i2.astype(jnp.float32) * 0.0

    def f_three(x):
        a, b, c = jax.lax.cond(x > 0.5, lambda z: (z, jnp.sin(z), 2.0), lambda z: (z * z, z, 1.0), x)
        return a * b + c

    def f_two_nested(x):
        a, b = jax.lax.cond(x > 0.5, lambda: jax.lax.cond(x > 0.6, lambda: (x, x * 3.0), lambda: (x * x, x)), lambda: (jnp.cos(x), x + 1.0))
        return a * b

    table = [("lax.cond with two outputs", f_two), ("lax.cond with three outputs and an operand", f_three), ("nested lax.cond with two outputs", f_two_nested),
             ("lax.cond whose branches return their operand unchanged (0 outputs after forwarding)", f_ident),
             ("lax.cond with a constant (literal) operand", f_lit),
             ("integer output of a jitted helper carried through a scan", f_int)]
    for name, f in table:
        for x0 in (0.7, 0.55, 0.2):
            case = {"kind": "interpreter-limit", "program": name, "x": x0}
            x = jnp.float32(x0)
            want_p, want_t = jax.jvp(f, (x,), (jnp.float32(1.0),))
            try:
                e = A.expectation(f)
                d = e.jvp_estimate(A.Dual(x, jnp.float32(1.0)))
                g = float(e.grad_estimate(x))
                v = float(e.estimate(x))
                if abs(float(d.primal) - float(want_p)) > 1e-5 or abs(float(d.tangent) - float(want_t)) > 1e-5:
                    ctx.property_failure(None, f"{name}: jvp_estimate gives ({float(d.primal)}, {float(d.tangent)}), jax.jvp ({float(want_p)}, {float(want_t)})", case)
                if abs(g - float(jax.grad(f)(x))) > 1e-5 or abs(v - float(f(x))) > 1e-5:
                    ctx.property_failure(None, f"{name}: grad_estimate / estimate ({g}, {v}) differ from jax.grad / f ({float(jax.grad(f)(x))}, {float(f(x))})", case)
            except Exception as ex:
                impl.reset_handlers()
                ctx.property_failure(None, f"{name}: ADEV raises {type(ex).__name__} ({str(ex)[:100]}) on a deterministic program that jax.jvp differentiates",
                                     {**case, "error": type(ex).__name__})
            ctx.case(nontrivial_key=("interpreter-limit", name, x0))
            ctx.count("interpreter-limit")


def library_functions(G, ctx):
    """Deterministic functions built from JAX LIBRARY functions that carry their own derivative rules or wrap a sub-jaxpr
    (jax.nn.relu / relu6 / softplus / softmax / logsumexp, jax.checkpoint, user custom_jvp with a hand-written rule, user custom_vjp):
    these reach the ADEV interpreter as custom_jvp_call / custom_vjp_call / remat equations, for which JAX has no per-primitive JVP rule.
    jvp_estimate vs jax.jvp, grad_estimate vs jax.grad, estimate vs the function value, for a scalar and an array argument."""
    import jax
    import jax.numpy as jnp
    import jax.scipy.special as jss
    A = __import__("genjax.adev", fromlist=["x"])

    @jax.custom_jvp
    def cj(x):
        return jnp.sin(x) * x

    @cj.defjvp
    def cj_rule(primals, tangents):          # a deliberately NON-standard rule: ADEV must use it, exactly as jax.jvp does
        (x,), (t,) = primals, tangents
        return cj(x), 3.0 * t

    @jax.custom_vjp
    def cv(x):
        return jnp.sin(x) * x

    cv.defvjp(lambda x: (jnp.sin(x) * x, x), lambda r, g: (g * 5.0,))

    fs = [("jax.nn.relu", lambda x: jnp.sum(jax.nn.relu(x) * x), True),
          ("jax.nn.relu6", lambda x: jnp.sum(jax.nn.relu6(x * 3.0)), True),
          ("jax.nn.softplus", lambda x: jnp.sum(jax.nn.softplus(x)), True),
          ("jax.nn.softmax", lambda x: jnp.sum(jax.nn.softmax(jnp.atleast_1d(x) * jnp.arange(1.0, 4.0)[: jnp.size(x)]) * x), True),
          ("logsumexp", lambda x: jss.logsumexp(jnp.atleast_1d(x) * 2.0), True),
          ("jax.checkpoint", lambda x: jnp.sum(jax.checkpoint(lambda y: jnp.sin(y) * y)(x)), True),
          ("custom_jvp with its own rule", lambda x: jnp.sum(cj(x) * 2.0), True),
          ("relu inside lax.cond", lambda x: jax.lax.cond(jnp.sum(x) > 0.0, lambda: jnp.sum(jax.nn.relu(x)), lambda: jnp.sum(x * x)), True),
          ("relu inside scan", lambda x: jax.lax.scan(lambda c, t: (c + jnp.sum(jax.nn.relu(x * t)), c), 0.0, jnp.arange(1.0, 3.0))[0], True),
          ("custom_vjp with its own rule", lambda x: jnp.sum(cv(x) * 2.0), False)]
    for xname, x, t in (("scalar", jnp.float32(0.7), jnp.float32(1.0)), ("scalar<0", jnp.float32(-0.4), jnp.float32(2.0)),
                        ("vector", jnp.array([0.5, -1.25, 2.0], jnp.float32), jnp.array([1.0, 0.5, -2.0], jnp.float32))):
        for name, f, forward in fs:
            case = {"kind": "library-function", "function": name, "argument": xname}
            try:
                e = A.expectation(f)
                if forward:
                    want_p, want_t = jax.jvp(f, (x,), (t,))
                    d = e.jvp_estimate(A.Dual(x, t))
                    if not (np.allclose(d.primal, want_p, rtol=1e-5, atol=1e-6) and np.allclose(d.tangent, want_t, rtol=1e-5, atol=1e-6)):
                        ctx.property_failure(None, f"{name} ({xname}): jvp_estimate gives ({np.asarray(d.primal).tolist()}, {np.asarray(d.tangent).tolist()}), "
                                             f"jax.jvp ({np.asarray(want_p).tolist()}, {np.asarray(want_t).tolist()})", case)
                    v = e.estimate(x)
                    if not np.allclose(v, f(x), rtol=1e-5, atol=1e-6):
                        ctx.property_failure(None, f"{name} ({xname}): estimate gives {np.asarray(v).tolist()}, the function value is {np.asarray(f(x)).tolist()}", case)
                g, wg = e.grad_estimate(x), jax.grad(f)(x)
                if not np.allclose(g, wg, rtol=1e-5, atol=1e-6):
                    ctx.property_failure(None, f"{name} ({xname}): grad_estimate gives {np.asarray(g).tolist()}, jax.grad {np.asarray(wg).tolist()}", case)
            except Exception as ex:
                impl.reset_handlers()
                ctx.property_failure(None, f"{name} ({xname}): ADEV raises {type(ex).__name__} ({str(ex)[:110]}) on a deterministic function that JAX differentiates",
                                     {**case, "error": type(ex).__name__})
            ctx.case(sample=case if (name, xname) == ("jax.nn.relu", "vector") else None, nontrivial_key=("library-function", name, xname))
            ctx.count("library-function")


def array_valued_outputs(G, ctx):
    """programs whose RESULT is a single array (jvp_estimate's declared return type is one Dual; tuple / dict results are rejected by its
    own type annotation and are not judged here), with a symbolic-zero tangent for all or part of it: jvp_estimate must return
    primal and tangent with the shapes, dtypes and values of jax.jvp - a zero tangent is a zero ARRAY of the output's shape."""
    import jax
    import jax.numpy as jnp
    A = __import__("genjax.adev", fromlist=["x"])
    v = jnp.asarray([0.4, -1.3, 2.6], jnp.float32)
    m = jnp.asarray([[0.25, -0.75, 1.5], [2.25, 0.5, -1.0]], jnp.float32)
    fams = [
        ("round of a vector", lambda x: jnp.round(x), v),
        ("sign of a vector", lambda x: jnp.sign(x), v),
        ("floor of a matrix, transposed", lambda x: jnp.floor(x).T, m),
        ("stop_gradient slice", lambda x: jax.lax.stop_gradient(x)[1:], v),
        ("dead and live halves concatenated", lambda x: jnp.concatenate([jax.lax.stop_gradient(x)[1:], x[:2] * x[1:]]), v),
        ("smooth vector output (control)", lambda x: jnp.sin(x) * x, v),
        ("scalar round (control)", lambda x: jnp.round(x) + x, jnp.float32(1.4)),
    ]
    for name, f, arg in fams:
        case = {"kind": "array-valued-output", "program": name}
        tan = jnp.ones_like(arg) * 0.5
        try:
            wp, wt = jax.jvp(f, (arg,), (tan,))
            d = A.expectation(f).jvp_estimate(A.Dual(arg, tan))
            gp, gt = jtu_leaves(jax, d, A)
            lw_p, lw_t = jax.tree_util.tree_leaves(wp), jax.tree_util.tree_leaves(wt)
            for what, got, want in (("primal", gp, lw_p), ("tangent", gt, lw_t)):
                if len(got) != len(want) or any(np.shape(a) != np.shape(b) or np.asarray(a).dtype != np.asarray(b).dtype
                                               or not np.allclose(np.asarray(a), np.asarray(b), rtol=1e-5, atol=1e-6) for a, b in zip(got, want)):
                    ctx.property_failure(None, f"{name}: jvp_estimate {what} {[ (np.shape(a), np.asarray(a).tolist()) for a in got]} differs from jax.jvp "
                                               f"{[(np.shape(b), np.asarray(b).tolist()) for b in want]}", case)
        except Exception as ex:
            impl.reset_handlers()
            ctx.property_failure(None, f"{name} raised {type(ex).__name__}: {str(ex)[:160]}", case)
        ctx.case(sample=case if "floor" in name else None, nontrivial_key=("array-valued-output", name))
        ctx.count("array-valued-output")


def jtu_leaves(jax, d, A):
    """primal / tangent leaves of what jvp_estimate returned (a Dual, or a pytree of Duals)"""
    is_dual = lambda x: isinstance(x, A.Dual)
    duals = jax.tree_util.tree_leaves(d, is_leaf=is_dual)
    ps, ts = [], []
    for x in duals:
        ps += jax.tree_util.tree_leaves(x.primal)
        ts += jax.tree_util.tree_leaves(x.tangent)
    return ps, ts


def run(ctx, audit):
    G = impl.load()
    rng = ctx.rng
    interpreter_limits(G, ctx)
    array_valued_outputs(G, ctx)
    library_functions(G, ctx)
    python_scalar_arguments(G, ctx)
    for name, f, shapes in corpus():
        for rep in range(3 if ctx.thorough else 1):
            check_one(G, ctx, name, f, shapes, rng)
    for _ in range(60 if ctx.thorough else 15):
        straight_line_model(G, ctx, rng)
    rich_witnesses(G, ctx)
    for _ in range(300 if ctx.thorough else 50):
        rich_random(G, ctx, rng)
    return {"rule": RULE}


def replay(ctx, payload):
    G = impl.load()
    c = payload.get("case") or {}
    rng = random.Random(0)
    if c.get("kind") == "rich-program":
        from fractions import Fraction as Fr
        kinds = list(c["kinds"])
        rich_case(G, ctx, c.get("name", "replay"), D.from_sexp(sexp.loads(c["program"])), int(c["out"]), kinds,
                  [Fr(v) for v in c["values"]], [None if t == "None" else Fr(t) for t in c["tangents"]])
    if c.get("kind") == "array-valued-output":
        array_valued_outputs(G, ctx)
    for name, f, shapes in corpus():
        if c.get("kind") in ("rich-program", "array-valued-output"):
            break
        if name == c.get("program") or c.get("kind") != "det-program":
            check_one(G, ctx, name, f, shapes, rng)
    for i in ctx.issues:
        print("REPRODUCED:", i["what"])
    for b in ctx.corr_breaks:
        print("CORRESPONDENCE:", b["name"], "-", b["what"])
    if not ctx.issues:
        print("not reproduced")
    return 1 if ctx.issues else 0
