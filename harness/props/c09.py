"""C09 — mh, mala and hmc are reversible with respect to the posterior."""
import math
import zlib

import numpy as np

import common
import impl
import sexp

RULE = ("target models: scalar chain, array-valued address, selection inside Vmap / Scan / Cond, mixture indicator feeding a Cond with observed "
        "branches; per model several traces, selections, step sizes {0.05,0.3}, leapfrog counts {1,2,4}; ONE kernel step with scripted internal "
        "randomness (proposal noise, momentum, accept uniform swapped for scripted twins in the compat copy's mcmc module): proposal, "
        "log acceptance ratio, accept decision and resulting trace vs an independent JAX/scipy implementation of the MH rule and vs the Lean "
        "model (accept rule, leapfrog); mh's proposal = seeded regenerate under the same key; unselected/observed untouched; rejection returns "
        "the input bit-for-bit; mala/hmc additionally vs the Lean kernels model (Mcmc.malaLogAlpha / Mcmc.hmcLogAlpha run by the driver on the exact "
        "rational quadratic form of the independent log density, same state / noise / momentum / step size / step count): proposal, log alpha "
        "(vs the oracle numerically, vs the implementation by accept decisions at scripted thresholds bracketing exp(log alpha) by +-2%); "
        "non-trivial = every case (distinct by model/selection/randomness)")


class Scripted:
    """stand-in for genjax.distributions.normal / uniform inside mcmc.py: .sample returns scripted values of the
    requested shape (recording the shapes asked for); .logpdf is the real density"""

    def __init__(self, real, rng):
        self.real = real
        self.rng = rng
        self.calls = []
        self.fixed = None

    def sample(self, *params, **kw):
        import jax.numpy as jnp
        shape = tuple(kw.get("sample_shape", ())) + tuple(np.broadcast_shapes(*[np.shape(p) for p in params]))
        self.calls.append(shape)
        if self.fixed is not None:
            return jnp.asarray(self.fixed, dtype=jnp.float32)
        vals = np.array([self.rng.choice([-1.5, -0.75, -0.25, 0.25, 0.5, 1.0, 1.25]) for _ in range(int(np.prod(shape)) or 1)], dtype=np.float32)
        return jnp.asarray(vals.reshape(shape))

    def logpdf(self, *a, **kw):
        return self.real.logpdf(*a, **kw)


def models(G):
    """name -> (gen fn, args, constraints, selections, independent log density over the flat latent dict)"""
    import jax.numpy as jnp
    from jax.scipy.stats import norm
    normal, flip = G.normal, G.flip
    out = {}

    @G.gen
    def chain():
        x = normal(0.0, 1.0) @ "x"
        z = normal(0.5 * x, 1.0) @ "z"
        y = normal(x + z, 0.5) @ "y"
        return y

    def lp_chain(c):
        return norm.logpdf(c["x"], 0.0, 1.0) + norm.logpdf(c["z"], 0.5 * c["x"], 1.0) + norm.logpdf(c["y"], c["x"] + c["z"], 0.5)
    out["scalar-chain"] = (chain, (), {"y": jnp.float32(0.7)}, [("str", "x"), ("union", ("str", "x"), ("str", "z"))], lp_chain)

    @G.gen
    def arr():
        v = normal.repeat(3)(0.0, 1.0) @ "v"
        y = normal.vmap(in_axes=(0, None))(v * jnp.array([1.0, 2.0, -1.0]), 0.5) @ "y"
        return jnp.sum(v)

    def lp_arr(c):
        return jnp.sum(norm.logpdf(c["v"], 0.0, 1.0)) + jnp.sum(norm.logpdf(c["y"], c["v"] * jnp.array([1.0, 2.0, -1.0]), 0.5))
    out["array-address"] = (arr, (), {"y": jnp.array([0.5, -0.3, 1.0], dtype=jnp.float32)}, [("str", "v")], lp_arr)

    @G.gen
    def inner(m):
        a = normal(m, 1.0) @ "a"
        b = normal(2.0 * a, 0.5) @ "b"
        return b

    @G.gen
    def lanes():
        r = inner.vmap(in_axes=(0,))(jnp.array([0.0, 1.0])) @ "l"
        t = normal(jnp.sum(r), 1.0) @ "t"
        return t

    def lp_lanes(c):
        a, b = c["l"]["a"], c["l"]["b"]
        return jnp.sum(norm.logpdf(a, jnp.array([0.0, 1.0]), 1.0)) + jnp.sum(norm.logpdf(b, 2.0 * a, 0.5)) + norm.logpdf(c["t"], jnp.sum(b), 1.0)
    out["inside-vmap"] = (lanes, (), {"l": {"b": jnp.array([0.2, 0.9], dtype=jnp.float32)}, "t": jnp.float32(1.0)}, [("tup", "l", "a")], lp_lanes)

    @G.gen
    def step(carry, x):
        z = normal(0.8 * carry, 1.0) @ "z"
        o = normal(z, 0.5) @ "o"
        return z, o

    sc = G.Scan(step, length=G.const(3))

    @G.gen
    def ssm():
        c, os_ = sc(jnp.float32(0.0), jnp.zeros(3)) @ "s"
        return c

    def lp_ssm(c):
        z, o = c["s"]["z"], c["s"]["o"]
        prev = jnp.concatenate([jnp.zeros(1), z[:-1]])
        return jnp.sum(norm.logpdf(z, 0.8 * prev, 1.0)) + jnp.sum(norm.logpdf(o, z, 0.5))
    out["inside-scan"] = (ssm, (), {"s": {"o": jnp.array([0.3, -0.2, 0.8], dtype=jnp.float32)}}, [("tup", "s", "z")], lp_ssm)

    @G.gen
    def comp_t(m):
        y = normal(m + 2.0, 0.5) @ "y"
        return y

    @G.gen
    def comp_f(m):
        y = normal(m - 1.0, 1.5) @ "y"
        return y

    @G.gen
    def mix():
        z = flip(0.4) @ "z"
        m = normal(0.0, 1.0) @ "m"
        y = comp_t.cond(comp_f)(z, m) @ "c"
        return y

    def lp_mix(c):
        z = c["z"]
        return jnp.where(z, math.log(0.4), math.log(0.6)) + norm.logpdf(c["m"], 0.0, 1.0) + \
            norm.logpdf(c["c"]["y"], jnp.where(z, c["m"] + 2.0, c["m"] - 1.0), jnp.where(z, 0.5, 1.5))
    out["mixture-indicator"] = (mix, (), {"c": {"y": jnp.float32(1.2)}}, [("str", "z"), ("str", "m"), ("union", ("str", "z"), ("str", "m"))], lp_mix)
    return out


def flat(c, pre=()):
    out = {}
    for k, v in c.items():
        if isinstance(v, dict):
            out.update(flat(v, pre + (k,)))
        else:
            out[pre + (k,)] = np.asarray(v)
    return out


def selected_paths(c16, e, choices):
    return {p for p in flat(choices) if c16.ref_selected(e, p)}


def tree_get(c, p):
    for k in p:
        c = c[k]
    return c


def tree_set(c, p, v):
    c = dict(c)
    if len(p) == 1:
        c[p[0]] = v
    else:
        c[p[0]] = tree_set(c[p[0]], p[1:], v)
    return c


def same_trace(a, b):
    import jax
    la, lb = jax.tree_util.tree_leaves(a), jax.tree_util.tree_leaves(b)

    def norm(x):
        x = np.asarray(x)
        return x.astype(np.float32) if np.issubdtype(x.dtype, np.floating) else x   # python-float args vs float32 arrays
    return len(la) == len(lb) and all(np.array_equal(norm(x), norm(y)) for x, y in zip(la, lb))


BRACKET = 0.02   # thresholds exp(log alpha -+ BRACKET): the same +-2% as the mh branch


def quad_target(lp_sel, order, x0):
    """the independent log density over the selected leaves as an exact quadratic form k + b.x - x^T A x / 2 over the flattened coordinates
    (leaf order = `order`); every C09 target is linear-Gaussian in its continuous latents, so this IS the target.  Infra if it is not quadratic."""
    import jax
    import jax.numpy as jnp
    sizes = [int(np.prod(np.shape(x0[p])) or 1) for p in order]
    shapes = [tuple(np.shape(x0[p])) for p in order]

    def unflatten(v):
        out, i = {}, 0
        for p, n, shp in zip(order, sizes, shapes):
            out[p] = jnp.reshape(v[i:i + n], shp)
            i += n
        return out

    def flatten(xs):
        return np.concatenate([np.ravel(np.asarray(xs[p], dtype=np.float64)) for p in order])

    f = lambda v: lp_sel(unflatten(v))
    gf = jax.grad(f)
    n = sum(sizes)
    z = jnp.zeros(n, dtype=jnp.float32)
    k = float(f(z))
    b = np.asarray(gf(z), dtype=np.float64)
    # the gradient of a quadratic is affine: column j of the Hessian is grad(e_j) - grad(0) (eager evaluations, nothing is compiled)
    h = np.stack([np.asarray(gf(z.at[j].set(1.0)), dtype=np.float64) - b for j in range(n)], axis=1)
    A = -(h + h.T) / 2.0

    def q(v):
        v = np.asarray(v, dtype=np.float64)
        return k + b @ v - v @ A @ v / 2.0
    return k, A, b, sizes, flatten, unflatten, f, q


def kernels_model(kernel, eps, nsteps, k, A, b, sizes, xflat, zflat):
    """run Mcmc.malaStep / Mcmc.hmcStep (Lean, exact rationals) on the quadratic target; the Gaussian normaliser is sent as the number the
    code uses although the model's log alpha provably does not depend on it"""
    from fractions import Fraction as Fr
    fq = lambda v: Fr(float(v)).limit_denominator(10 ** 9)
    ex = lambda v: Fr(float(v))          # float32 values are dyadic: sent exactly
    Aq = [[fq(a) for a in row] for row in A]
    common_args = [list(sizes), fq(k), Aq, [fq(v) for v in b], [ex(v) for v in xflat], [ex(v) for v in zflat]]
    if kernel == "mala":
        line = sexp.dumps(["mala-alpha", fq(math.log(eps * math.sqrt(2 * math.pi))), fq(eps)] + common_args)
    else:
        line = sexp.dumps(["hmc-alpha", fq(math.log(math.sqrt(2 * math.pi))), fq(eps), int(nsteps)] + common_args)
    r = sexp.loads(common.driver_run([line])[0])
    if r[0] != "ok":
        raise common.Infra(f"driver rejected {line[:200]}: {r}")
    from fractions import Fraction as F
    if kernel == "mala":
        return {"x1": np.array([float(F(t)) for t in r[1]]), "alpha": float(F(r[2])), "w": float(F(r[3])), "fwd": float(F(r[4])), "bwd": float(F(r[5])),
                "g0": np.array([float(F(t)) for t in r[6]]), "g1": np.array([float(F(t)) for t in r[7]]), "rev": r[8] == "T"}
    return {"x1": np.array([float(F(t)) for t in r[1]]), "p1": np.array([float(F(t)) for t in r[2]]), "alpha": float(F(r[3])),
            "lp0": float(F(r[4])), "lp1": float(F(r[5])), "rev": r[6] == "T"}



def check_kernel(G, ctx, mname, spec, sel_e, kernel, key_int, rng, eps=0.3, nsteps=2):
    import jax
    import jax.numpy as jnp
    import jax.random as jr
    import genjax.inference.mcmc as M
    from props import c16
    gf, args, constraints, _, logp = spec
    sel = c16.to_impl(G, sel_e)
    tr, _ = G.seed(gf.generate)(jr.key(key_int), constraints, *args)
    ch = tr.get_choices()
    spaths = sorted(selected_paths(c16, sel_e, ch))
    case = {"kind": "kernel-step", "model": mname, "selection": list(sel_e), "kernel": kernel, "key": key_int, "eps": eps, "n_steps": nsteps}
    real_normal, real_uniform = M.normal, M.uniform
    sn, su = Scripted(real_normal, rng), Scripted(real_uniform, rng)
    M.normal, M.uniform = sn, su
    try:
        key = jr.key(key_int + 500)
        if kernel == "mh":
            prop, w, _ = G.seed(gf.regenerate)(key, tr, sel, *args)
            w = float(w)
            # independent MH weight: change of joint minus change of the selected choices' prior
            lp_old, lp_new = float(logp(ch)), float(logp(prop.get_choices()))
            want_prior = prior_of_selected(mname, prop.get_choices(), spaths) - prior_of_selected(mname, ch, spaths)
            if abs(w - ((lp_new - lp_old) - want_prior)) > 2e-3 * (1 + abs(w)):
                ctx.property_failure(None, f"mh: regenerate weight {w} is not the MH ratio {(lp_new - lp_old) - want_prior} for the regenerate-from-prior proposal", case)
            # the proposal LAW: every selected site of these targets has only selected sites or arguments as parents, so the regenerate-from-
            # prior proposal does not depend on the current state - from a second current trace, under the same key, the proposed values of the
            # selected addresses must be the same (a step regenerated against the OLD value of a selected parent keeps the weight formula
            # intact and is invisible to it)
            tr_b, _ = G.seed(gf.generate)(jr.key(key_int + 9000), constraints, *args)
            prop_b, _, _ = G.seed(gf.regenerate)(key, tr_b, sel, *args)
            for pth in spaths:
                va, vb = np.asarray(tree_get(prop.get_choices(), pth), dtype=np.float64), np.asarray(tree_get(prop_b.get_choices(), pth), dtype=np.float64)
                if va.shape != vb.shape or not np.allclose(va, vb, rtol=1e-5, atol=1e-6):
                    ctx.property_failure(None, f"mh: the proposal for {'/'.join(pth)} depends on the CURRENT state ({va.tolist()} vs {vb.tolist()} from two current traces under one key) "
                                         "although all parents of the selected sites are selected: the sites were not regenerated from the prior given the NEW parent values", {**case, "address": list(pth)})
                    break
            thresholds = [1e-6, 0.9999] + ([math.exp(w) * 0.98, min(0.99999, math.exp(w) * 1.02)] if w < -1e-3 else [])
            for u in thresholds:
                su.fixed = u
                out = G.seed(lambda t: M.mh(t, sel))(key, tr)
                acc_want = math.log(u) < min(0.0, w)
                r = sexp.loads(common.driver_run([sexp.dumps(["mh-accept", float_q(math.log(u)), float_q(w)])])[0])
                if (r[1] == "T") != acc_want:
                    ctx.correspondence_break("Mcmc.accept vs reference rule", f"u={u} w={w}", case)
                want = prop if acc_want else tr
                if not same_trace(out, want):
                    ctx.property_failure(None, f"mh: with accept threshold u={u:.6g} and log weight {w:.4f} the kernel did not return the {'proposed' if acc_want else 'current'} trace "
                                         f"(MH rule says {'accept' if acc_want else 'reject'})", {**case, "u": u, "w": w})
        else:
            x0 = {p: jnp.asarray(tree_get(ch, p), dtype=jnp.float32) for p in spaths}

            def lp_sel(xs):
                c = ch
                for p in spaths:
                    c = tree_set(c, p, xs[p])
                return logp(c)

            su.fixed = None
            u = rng.choice([1e-6, 0.3, 0.9999])
            su.fixed = u
            k = (lambda t: M.mala(t, sel, eps)) if kernel == "mala" else (lambda t: M.hmc(t, sel, eps, nsteps))
            n_before = len(sn.calls)
            sn.rng = np_rng_copy = __import__("random").Random(key_int * 7 + 1)
            out = k(tr) if mname not in ("mixture-indicator",) else G.seed(k)(key, tr)
            shapes = sn.calls[n_before:]
            want_shapes = [tuple(np.shape(x0[p])) for p in spaths]
            if sorted(shapes) != sorted(want_shapes):
                ctx.property_failure(None, f"{kernel}: internal noise/momentum was requested with shapes {shapes}, the selected choices have shapes {want_shapes} "
                                     "(not one independent standard normal per coordinate)", {**case, "requested_shapes": [list(s) for s in shapes]})
                return
            # replay the same scripted stream for the oracle, leaf order = order of requests
            rr = __import__("random").Random(key_int * 7 + 1)
            order = leaf_order(ch, spaths)
            noise = {}
            for p in order:
                shp = tuple(np.shape(x0[p]))
                vals = np.array([rr.choice([-1.5, -0.75, -0.25, 0.25, 0.5, 1.0, 1.25]) for _ in range(int(np.prod(shp)) or 1)], dtype=np.float32)
                noise[p] = jnp.asarray(vals.reshape(shp))
            g = jax.grad(lp_sel)
            if kernel == "mala":
                g0 = g(x0)
                x1 = {p: x0[p] + (eps ** 2 / 2.0) * g0[p] + eps * noise[p] for p in spaths}
                g1 = g(x1)
                from jax.scipy.stats import norm
                fwd = sum(float(jnp.sum(norm.logpdf(x1[p], x0[p] + (eps ** 2 / 2.0) * g0[p], eps))) for p in spaths)
                bwd = sum(float(jnp.sum(norm.logpdf(x0[p], x1[p] + (eps ** 2 / 2.0) * g1[p], eps))) for p in spaths)
                log_alpha = float(lp_sel(x1)) - float(lp_sel(x0)) + bwd - fwd
            else:
                x, pm = dict(x0), dict(noise)
                gr = g(x)
                for _ in range(nsteps):
                    pm = {p: pm[p] + (eps / 2.0) * gr[p] for p in spaths}
                    x = {p: x[p] + eps * pm[p] for p in spaths}
                    gr = g(x)
                    pm = {p: pm[p] + (eps / 2.0) * gr[p] for p in spaths}
                x1 = x
                kin0 = sum(float(jnp.sum(noise[p] ** 2)) for p in spaths) / 2.0
                kin1 = sum(float(jnp.sum(pm[p] ** 2)) for p in spaths) / 2.0
                log_alpha = (float(lp_sel(x1)) - kin1) - (float(lp_sel(x0)) - kin0)
            acc_want = math.log(u) < min(0.0, log_alpha)
            margin = abs(math.log(u) - min(0.0, log_alpha))
            oc = out.get_choices()
            got = {p: np.asarray(tree_get(oc, p)) for p in spaths}
            moved = any(not np.array_equal(got[p], np.asarray(x0[p])) for p in spaths)
            case.update({"u": u, "oracle_log_alpha": log_alpha})
            if margin > 1e-3:
                if moved != acc_want:
                    ctx.property_failure(None, f"{kernel}: MH rule says {'accept' if acc_want else 'reject'} (log alpha {log_alpha:.4f}, u={u}) but the kernel "
                                         f"{'moved' if moved else 'did not move'}", case)
                elif acc_want and any(not np.allclose(got[p], np.asarray(x1[p]), rtol=2e-3, atol=2e-3) for p in spaths):
                    ctx.property_failure(None, f"{kernel}: the accepted state is not the {('Langevin' if kernel == 'mala' else 'leapfrog')} proposal for the noise actually drawn", case)
            if not moved and not same_trace(out, tr):
                ctx.property_failure(None, f"{kernel}: a rejected move did not return the input trace unchanged", case)
            for p, v in flat(oc).items():
                if p not in spaths and not np.array_equal(v, flat(ch)[p]):
                    ctx.property_failure(None, f"{kernel}: unselected choice {p} changed", case)
                    break
            # coherence of the result
            if abs(float(out.get_score()) + float(logp(oc))) > 2e-3 * (1 + abs(float(out.get_score()))):
                ctx.property_failure(None, f"{kernel}: resulting trace score {float(out.get_score())} != -log joint {-float(logp(oc))}", case)
            # ---- the Lean kernels model (Mcmc.malaStep / Mcmc.hmcStep, exact rationals) on the same state, noise / momentum, step size, step count
            name = "Mcmc.malaLogAlpha vs mala" if kernel == "mala" else "Mcmc.hmcLogAlpha vs hmc"
            kq, A, b, sizes, flatten, unflatten, f32, q = quad_target(lp_sel, order, x0)
            xf, zf, x1f = flatten(x0), flatten(noise), flatten(x1)
            for v in (xf, x1f):
                if abs(float(f32(jnp.asarray(v, dtype=jnp.float32))) - q(v)) > 2e-3 * (1 + abs(q(v))):
                    raise common.Infra(f"C09 target {mname}/{sel_e} is not quadratic in the selected choices: the kernels model layer has no exact target for it "
                                       "(give the model family a Gaussian form or extend the driver)")
            m = kernels_model(kernel, eps, nsteps, kq, A, b, sizes, xf, zf)
            mcase = {**case, "model_log_alpha": m["alpha"]}
            if not m["rev"]:
                ctx.correspondence_break(name, "driver: the reversed move does not have the negated log alpha (C09_mala_reverse_symmetric / C09_hmc_reverse_symmetric instance)", mcase)
            # model vs the independent reference: proposal and log alpha
            if not np.allclose(m["x1"], x1f, rtol=2e-3, atol=2e-3):
                ctx.correspondence_break(name, f"model proposal {m['x1'].tolist()} != reference proposal {x1f.tolist()}", mcase)
            if abs(m["alpha"] - log_alpha) > 2e-3 * (1 + abs(log_alpha)):
                ctx.correspondence_break(name, f"model log alpha {m['alpha']} != reference MH log ratio {log_alpha}", mcase)
            # model vs implementation: accept decisions at thresholds bracketing exp(model log alpha), and the accepted state
            runs = [(math.exp(min(m["alpha"], 0.0) - BRACKET), True)] if m["alpha"] > -80.0 else []
            if -80.0 < m["alpha"] < -BRACKET:
                runs.append((math.exp(m["alpha"] + BRACKET), False))
            for uu, want_acc in runs:
                su.fixed = uu
                sn.rng = __import__("random").Random(key_int * 7 + 1)
                # seed() caches the staged function per function object: the scripted threshold is a Python value baked in at trace time,
                # so every seeded re-run needs a FRESH function object (a stale cached threshold was a false alarm of the thorough tier)
                o2 = k(tr) if mname not in ("mixture-indicator",) else G.seed(lambda t, k=k: k(t))(key, tr)
                oc2 = o2.get_choices()
                got2 = {p: np.asarray(tree_get(oc2, p)) for p in spaths}
                moved2 = any(not np.array_equal(got2[p], np.asarray(x0[p])) for p in spaths)
                bcase = {**mcase, "u": uu}
                ctx.count(f"bracket:{kernel}:{'accept' if want_acc else 'reject'}")
                if moved2 != want_acc:
                    ctx.correspondence_break(name, f"model log alpha {m['alpha']:.5f}: at accept threshold u={uu:.6g} (log u {math.log(uu):.5f}) the kernel "
                                             f"{'moved' if moved2 else 'did not move'}", bcase)
                    if (math.log(uu) < min(0.0, log_alpha)) == want_acc and abs(math.log(uu) - min(0.0, log_alpha)) > 1e-3:
                        ctx.property_failure(None, f"{kernel}: MH rule says {'accept' if want_acc else 'reject'} (log alpha {log_alpha:.4f}, u={uu:.6g}) but the kernel "
                                             f"{'moved' if moved2 else 'did not move'}", bcase)
                elif moved2 and not np.allclose(flatten(got2), m["x1"], rtol=2e-3, atol=2e-3):
                    ctx.correspondence_break(name, f"accepted state {flatten(got2).tolist()} != model proposal {m['x1'].tolist()}", bcase)
                    if any(not np.allclose(got2[p], np.asarray(x1[p]), rtol=2e-3, atol=2e-3) for p in spaths):
                        ctx.property_failure(None, f"{kernel}: the accepted state is not the {('Langevin' if kernel == 'mala' else 'leapfrog')} proposal for the noise actually drawn", bcase)
                if not moved2 and not same_trace(o2, tr):
                    ctx.property_failure(None, f"{kernel}: a rejected move did not return the input trace unchanged", bcase)
            ctx.count(f"kernels-model:{kernel}")
    except common.Infra:
        raise
    except Exception as ex:
        impl.reset_handlers()
        ctx.property_failure(None, f"{kernel} raised {type(ex).__name__}: {str(ex)[:200]}", case)
    finally:
        M.normal, M.uniform = real_normal, real_uniform
    ctx.case(sample=case if ctx.coverage["evaluations"] % 7 == 0 else None, nontrivial_key=(mname, str(sel_e), kernel, key_int, eps, nsteps))
    ctx.count(f"{kernel}:{mname}")


def leaf_order(ch, spaths):
    """order in which tree_map visits the selected leaves (jax sorts dict keys)"""
    return sorted(spaths)


def float_q(x):
    from fractions import Fraction
    return Fraction(float(x)).limit_denominator(10 ** 9)


def prior_of_selected(mname, c, spaths):
    """log prior density of the selected choices given their parents (model specific, independent of genjax)"""
    from scipy.stats import norm
    tot = 0.0
    for p in spaths:
        if mname == "scalar-chain":
            tot += norm.logpdf(float(c["x"]), 0, 1) if p == ("x",) else norm.logpdf(float(c["z"]), 0.5 * float(c["x"]), 1)
        elif mname == "array-address":
            tot += norm.logpdf(np.asarray(c["v"]), 0, 1).sum()
        elif mname == "inside-vmap":
            tot += norm.logpdf(np.asarray(c["l"]["a"]), np.array([0.0, 1.0]), 1).sum()
        elif mname == "inside-scan":
            z = np.asarray(c["s"]["z"])
            tot += norm.logpdf(z, 0.8 * np.concatenate([[0.0], z[:-1]]), 1).sum()
        elif mname == "mixture-indicator":
            tot += (math.log(0.4) if bool(c["z"]) else math.log(0.6)) if p == ("z",) else norm.logpdf(float(c["m"]), 0, 1)
    return float(tot)


def leapfrog_model(ctx):
    """Lean leapfrog/flip model vs a numpy leapfrog on a quadratic potential (exact rationals vs float)"""
    from fractions import Fraction as Fr
    line = sexp.dumps(["leapfrog", Fr(1, 4), 3, [Fr(1), Fr(-1, 2)], [Fr(1, 2), Fr(3, 4)]])
    r = sexp.loads(common.driver_run([line])[0])
    x = np.array([1.0, -0.5]); p = np.array([0.5, 0.75]); eps = 0.25
    g = lambda q: -q
    for _ in range(3):
        p = p + eps / 2 * g(x); x = x + eps * p; p = p + eps / 2 * g(x)
    mx = np.array([float(Fr(t)) for t in r[1]]); mp = np.array([float(Fr(t)) for t in r[2]])
    if not (np.allclose(mx, x) and np.allclose(mp, p)) or r[3] != "T":
        ctx.correspondence_break("Mcmc.leapfrogN / flip involution (driver) vs numpy leapfrog", f"{r}", {"kind": "leapfrog-model"})
    ctx.case(nontrivial_key="leapfrog-model")


def bounded_support(G, ctx):
    """targets with BOUNDED support: a gradient proposal that leaves the support has log density NaN / -inf; the MH rule
    (log u < min(0, log alpha), false for NaN) must reject it and return the input trace unchanged - the chain can never
    hold a state outside the support.  (Reasoning over the reals cannot see this: it is about the float value NaN.)"""
    import jax
    import jax.numpy as jnp
    import jax.random as jr
    import genjax.inference.mcmc as M
    from genjax import sel
    beta, flip = G.beta, G.flip

    @G.gen
    def coin():
        p = beta(2.0, 2.0) @ "p"
        for i in range(5):
            flip(p) @ f"y{i}"
        return p

    obs = {f"y{i}": jnp.array(i != 3) for i in range(5)}
    for kernel, mk in (("hmc", lambda eps: (lambda t: M.hmc(t, sel("p"), eps, 3))), ("mala", lambda eps: (lambda t: M.mala(t, sel("p"), eps)))):
        for eps in (0.6, 1.5):
            case = {"kind": "bounded-support", "kernel": kernel, "eps": eps, "target": "beta(2,2)-bernoulli x5, start p=0.93"}
            try:
                tr, _ = G.seed(coin.generate)(jr.key(3), {**obs, "p": jnp.float32(0.93)})
                keys = jr.split(jr.key(ctx.seed + 40), 48)
                outs = jax.jit(jax.vmap(lambda k: G.seed(mk(eps))(k, tr)))(keys)
                ps = np.asarray(outs.get_choices()["p"], dtype=np.float64)
                sc = np.asarray(jax.vmap(lambda t: t.get_score())(outs), dtype=np.float64)
                bad = [float(x) for x in ps if not (0.0 < x < 1.0)]
                if bad or not np.all(np.isfinite(sc)):
                    case.update({"states_outside_support": bad[:5], "n_outside": len(bad), "n_nonfinite_score": int((~np.isfinite(sc)).sum())})
                    ctx.property_failure(None, f"{kernel} (eps={eps}): {len(bad)} of 48 one-step results lie OUTSIDE the support of the target "
                                         f"(e.g. p={bad[:3]}): a proposal with NaN / -inf density was accepted", case)
                moved = int((np.abs(ps - 0.93) > 1e-7).sum())
                case["moved"] = moved
            except Exception as ex:
                impl.reset_handlers()
                ctx.property_failure(None, f"{kernel} on a bounded-support target raised {type(ex).__name__}: {str(ex)[:160]}", case)
            ctx.case(sample=case if eps == 1.5 else None, nontrivial_key=("bounded", kernel, eps))
            ctx.count("bounded-support:" + kernel)


def kwargs_twin_kernels(G, ctx):
    """a target whose trace was built with a KEYWORD argument: every kernel must treat it exactly like the positional twin program
    (same key -> same proposal, same acceptance, same resulting choices)"""
    import jax.numpy as jnp
    import jax.random as jr
    import genjax.inference.mcmc as M
    from genjax import sel
    normal = G.normal

    @G.gen
    def m_kw(x0, sd=1.0):
        z = normal(x0, sd) @ "z"
        normal(z, 0.5) @ "y"
        return z

    @G.gen
    def m_pos(x0):
        z = normal(x0, 3.0) @ "z"
        normal(z, 0.5) @ "y"
        return z

    cons = {"z": jnp.float32(0.2), "y": jnp.float32(1.4)}
    t_kw, _ = G.seed(lambda: m_kw.generate(cons, jnp.float32(0.0), sd=jnp.float32(3.0)))(jr.key(1))
    t_pos, _ = G.seed(lambda: m_pos.generate(cons, jnp.float32(0.0)))(jr.key(1))
    kernels = {"mh": lambda t: M.mh(t, sel("z")), "mala": lambda t: M.mala(t, sel("z"), 0.4), "hmc": lambda t: M.hmc(t, sel("z"), 0.3, 3)}
    for kname, k in kernels.items():
        for key_int in (3, 4, 5):
            case = {"kind": "kwargs-twin-kernel", "kernel": kname, "key": key_int}
            try:
                a = G.seed(k)(jr.key(key_int), t_kw)
                b = G.seed(k)(jr.key(key_int), t_pos)
                za, zb = float(a.get_choices()["z"]), float(b.get_choices()["z"])
                if abs(za - zb) > 1e-5 or abs(float(a.get_score()) - float(b.get_score())) > 1e-4:
                    ctx.property_failure(None, f"{kname}: a trace built with sd=3.0 passed by keyword moves to z={za}, its positional twin (same key) to z={zb}: "
                                         "the kernel does not see the keyword argument of the target", {**case, "z_keyword": za, "z_positional": zb})
            except Exception as ex:
                impl.reset_handlers()
                ctx.property_failure(None, f"{kname} on a keyword-argument target raised {type(ex).__name__}: {str(ex)[:150]}", case)
            ctx.case(sample=case if key_int == 3 else None, nontrivial_key=("kw-twin", kname, key_int))
            ctx.count("kwargs-twin-kernel")


def shard(ctx, jobs):
    import random
    G = impl.load()
    ms = models(G)
    for (mname, sel_e, kernel, key_int, eps, nsteps) in jobs:
        rng = random.Random(key_int * 31 + zlib.crc32(kernel.encode()) % 97)      # stable across processes (str hashes are salted)
        check_kernel(G, ctx, mname, ms[mname], tuple(sel_e), kernel, key_int, rng, eps, nsteps)


def run(ctx, audit):
    G = impl.load()
    ms = models(G)
    jobs = []
    reps = 8 if ctx.thorough else 3
    for mname, spec in ms.items():
        for sel_e in spec[3]:
            for r in range(reps):
                key = ctx.seed * 100 + r
                jobs.append((mname, sel_e, "mh", key, 0.3, 1))
                if mname == "mixture-indicator" and sel_e != ("str", "m"):
                    continue    # discrete indicator: no gradient kernels
                jobs.append((mname, sel_e, "mala", key, [0.05, 0.3][r % 2], 1))
                jobs.append((mname, sel_e, "hmc", key, [0.05, 0.3][r % 2], [1, 2, 4][r % 3]))
    ctx.rng.shuffle(jobs)
    n = 12
    common.run_sharded(ctx, "props.c09", "shard", [(jobs[i::n],) for i in range(n)])
    leapfrog_model(ctx)
    bounded_support(G, ctx)
    kwargs_twin_kernels(G, ctx)
    return {"rule": RULE}


def replay(ctx, payload):
    c = payload.get("case") or {}
    if c.get("kind") == "kernel-step":
        shard(ctx, [(c["model"], tuple(c["selection"]), c["kernel"], c["key"], c.get("eps", 0.3), c.get("n_steps", 2))])
    for i in ctx.issues:
        print("REPRODUCED:", i["what"])
    if not ctx.issues:
        print("not reproduced")
    return 1 if ctx.issues else 0
