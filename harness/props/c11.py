"""C11 — ADEV value and gradient estimators are unbiased (exact for enumeration)."""
import itertools
import math
from fractions import Fraction as Fr

import numpy as np

import adevprog as AP
import common
import impl
import sexp

RULE = ("expectation programs with 1-3 ADEV sites (flip_enum, flip_enum_parallel, categorical_enum_parallel, flip_mvd, REINFORCE flips, "
        "normal_reparam / normal_reinforce with scripted noise) composed with deterministic code (where, cond, arithmetic), scalar and batched "
        "sites, parameter values in the open domain: jvp_estimate evaluated for EVERY outcome of the discrete sites (the primitives' internal "
        "flip sampler swapped for a scripted twin); outcome-weighted mean of value and tangent vs the closed-form expectation and its derivative; "
        "per-outcome estimator duals vs the Lean model; reparameterised sites vs jax.jvp of the sampled path; seed/jit agreement; "
        "DESCRIBED programs (harness/adevprog.py: one description -> the JAX function and the Lean driver term; 1-3 flip / categorical sites, "
        "estimators enum / enum_par / reinforce / mvd mixed, where / lax.cond / sites inside lax.cond branches): every internal outcome path of "
        "jvp_estimate (dual-mode draws, the forward-sampled pure continuation of flip_mvd, the vectorised continuations of the parallel "
        "enumerations) as a distribution of (probability, value, tangent) vs the model's Prog.est, weighted means vs Prog.exact and vs a "
        "brute-force sum over site outcomes; "
        "non-trivial = every (program, theta); distinct by program/theta")


class ScriptedFlip:
    def __init__(self, real, outs):
        self.real, self.outs, self.calls = real, list(outs), 0

    def sample(self, p, **kw):
        import jax.numpy as jnp
        self.calls += 1
        b = self.outs.pop(0)
        return jnp.broadcast_to(jnp.asarray(b), jnp.shape(p)) if np.ndim(b) == 0 else jnp.asarray(b)

    def logpdf(self, *a, **k):
        return self.real.logpdf(*a, **k)


class ScriptedNormal:
    def __init__(self, real, eps):
        self.real, self.eps = real, list(eps)

    def sample(self, mu, sigma, **kw):
        import jax.numpy as jnp
        e = self.eps[0]          # the same scripted noise for every evaluation of the site
        return jnp.asarray(mu) + jnp.asarray(sigma) * e

    def logpdf(self, *a, **k):
        return self.real.logpdf(*a, **k)


def programs(G, A):
    """name -> (builder(est...) -> f(theta), n_flips, prob(outcomes, theta) , value(outcomes, theta, eps) , eps list)"""
    import jax
    import jax.numpy as jnp
    real_flip = A.flip

    def scripted_reinforce():
        # REINFORCE over the (patched at call time) module-level flip sampler
        return None

    from genjax.core import distribution
    flip_rf = distribution(A.reinforce(lambda p: A.flip.sample(p), real_flip.logpdf, A._bernoulli_keyful_sample), real_flip.logpdf)
    ests = {"enum": A.flip_enum, "mvd": A.flip_mvd, "reinforce": flip_rf, "enum_par": A.flip_enum_parallel}
    P = {}

    def one_site(e):
        def f(th):
            b = ests[e](th)
            return jax.lax.cond(b, lambda: th ** 2, lambda: 3.0 * th)
        return f
    for e in ests:
        P["one-site:" + e] = dict(f=one_site(e), mk=None, sites=[e], prob=lambda bs, th: (th if bs[0] else 1 - th),
                                  val=lambda bs, th, eps: (th ** 2 if bs[0] else 3.0 * th))

    def where_site(e):
        def f(th):
            b = ests[e](0.5 * th + 0.25)
            return jnp.where(b, jnp.sin(th), th * th * 2.0)
        return f
    for e in ("enum", "mvd", "reinforce"):
        P["where:" + e] = dict(f=where_site(e), sites=[e], prob=lambda bs, th: ((0.5 * th + 0.25) if bs[0] else 1 - (0.5 * th + 0.25)),
                               val=lambda bs, th, eps: (jnp.sin(th) if bs[0] else th * th * 2.0))

    def two_sites(e1, e2, table=None):
        table = table or ests

        def f(th):
            b1 = table[e1](th)
            b2 = table[e2](jnp.where(b1, 0.5 * th, 1.0 - 0.5 * th))
            return jnp.where(b1, 1.0, 2.0) * jnp.where(b2, th, -th * th) + th
        return f
    for e1, e2 in (("reinforce", "mvd"), ("enum", "reinforce"), ("mvd", "enum"), ("reinforce", "reinforce"), ("mvd", "mvd"), ("enum_par", "mvd")):
        def prob(bs, th):
            p1 = th if bs[0] else 1 - th
            q = 0.5 * th if bs[0] else 1.0 - 0.5 * th
            return p1 * (q if bs[1] else 1 - q)
        P[f"two-sites:{e1}+{e2}"] = dict(f=two_sites(e1, e2), mk=(lambda table, e1=e1, e2=e2: two_sites(e1, e2, table)), sites=[e1, e2], prob=prob,
                                         val=lambda bs, th, eps: (1.0 if bs[0] else 2.0) * (th if bs[1] else -th * th) + th)

    def flip_then_reparam(e, table=None):
        table = table or ests

        def f(th):
            b = table[e](th)
            x = A.normal_reparam(th * 2.0, 0.5 + th)
            return jnp.where(b, x * x, x) * th
        return f
    for e in ("enum", "mvd", "reinforce"):
        P["flip+reparam:" + e] = dict(f=flip_then_reparam(e), mk=(lambda table, e=e: flip_then_reparam(e, table)), mc_eps=True, sites=[e], eps=[0.75], prob=lambda bs, th: (th if bs[0] else 1 - th),
                                      val=lambda bs, th, eps: (jnp.where(bs[0], (2 * th + (0.5 + th) * eps[0]) ** 2, 2 * th + (0.5 + th) * eps[0])) * th,
                                      val_mc=lambda bs, th: (jnp.where(bs[0], 4 * th * th + (0.5 + th) ** 2, 2 * th)) * th)
    return P


class Oracle:
    """scripted twin of the module-level `flip` used inside the ADEV primitives: follows a prefix of decisions, then
    answers True, recording (probability parameter, outcome) of every Bernoulli it is asked for"""

    def __init__(self, real, prefix):
        self.real, self.prefix, self.trace = real, list(prefix), []

    def sample(self, p, **kw):
        import jax.numpy as jnp
        pa = np.asarray(p, dtype=np.float64)
        outs = []
        for pi in pa.reshape(-1):
            i = len(self.trace)
            o = self.prefix[i] if i < len(self.prefix) else True
            self.trace.append((float(pi), bool(o)))
            outs.append(bool(o))
        return jnp.asarray(np.array(outs).reshape(pa.shape))

    def logpdf(self, *a, **k):
        return self.real.logpdf(*a, **k)


def enumerate_program(G, A, name, spec, theta):
    """exhaustive exploration of every Bernoulli the estimator draws internally (depth-first over decision prefixes);
    returns [(trace, weight, value, tangent)] with weight = product of the outcome probabilities actually used"""
    import jax.numpy as jnp
    real_flip, real_normal = A.flip, A.normal
    results, stack = [], [[]]
    while stack:
        prefix = stack.pop()
        orc = Oracle(real_flip, prefix)
        A.flip = orc
        A.normal = ScriptedNormal(real_normal, spec.get("eps", [0.0]))
        try:
            d = A.expectation(spec["f"]).jvp_estimate(A.Dual(jnp.float32(theta), jnp.float32(1.0)))
        finally:
            A.flip, A.normal = real_flip, real_normal
        w = 1.0
        for pi, o in orc.trace:
            w *= pi if o else (1.0 - pi)
        results.append(([o for _, o in orc.trace], w, float(d.primal), float(d.tangent)))
        for k in range(len(prefix), len(orc.trace)):
            stack.append([o for _, o in orc.trace[:k]] + [False])
        if len(results) > 4096:
            raise RuntimeError("too many internal outcomes")
    return results


def check_program_mc(G, A, ctx, name, spec, theta, n_keys):
    """programs whose pure continuation still samples (an MVD site followed by another site): seeded Monte Carlo"""
    import jax
    import jax.numpy as jnp
    import jax.random as jr
    case = {"kind": "adev-program-mc", "program": name, "theta": theta, "keys": n_keys}
    sites, eps = spec["sites"], spec.get("eps", [])

    def exact(th):
        tot = 0.0
        for bs in itertools.product([True, False], repeat=len(sites)):
            tot = tot + spec["prob"](bs, th) * (spec["val_mc"](bs, th) if "val_mc" in spec else spec["val"](bs, th, eps))
        return tot
    want_v, want_d = float(exact(jnp.float32(theta))), float(jax.grad(exact)(jnp.float32(theta)))
    # the library's own estimators here (no scripted twins): replace the scripted REINFORCE by the exported one
    real = {"enum": A.flip_enum, "mvd": A.flip_mvd, "reinforce": A.flip_reinforce, "enum_par": A.flip_enum_parallel}
    try:
        f = spec["mk"](real)
        est = lambda k: A.expectation(f).jvp_estimate(A.Dual(jnp.float32(theta), jnp.float32(1.0)))
        ds = jax.jit(jax.vmap(lambda k: G.seed(lambda: est(k))(k)))(jr.split(jr.key(ctx.seed + 9), n_keys))
        v, t = np.asarray(ds.primal, dtype=np.float64), np.asarray(ds.tangent, dtype=np.float64)
    except Exception as ex:
        impl.reset_handlers()
        ctx.property_failure(None, f"{name}: seeded jvp_estimate raised {type(ex).__name__}: {str(ex)[:200]}", case)
        return
    for what, arr, want in (("value", v, want_v), ("tangent", t, want_d)):
        se = arr.std(ddof=1) / math.sqrt(n_keys) if arr.std() > 0 else 0.0
        case[f"mean_{what}"] = float(arr.mean())
        case[f"exact_{what}"] = want
        if abs(arr.mean() - want) > 5.5 * se + 2e-4 * (1 + abs(want)):
            ctx.property_failure(None, f"{name} at theta={theta}: mean {what} {arr.mean():.4f} +- {se:.4f} over {n_keys} seeded runs != exact {want:.4f}", case)
    ctx.case(sample=case if ctx.coverage["evaluations"] % 5 == 0 else None, nontrivial_key=("mc", name, theta))
    ctx.count("program-mc:" + name.split(":")[0])


def check_program(G, A, ctx, name, spec, theta):
    import jax
    import jax.numpy as jnp
    case = {"kind": "adev-program", "program": name, "theta": theta}
    try:
        res = enumerate_program(G, A, name, spec, theta)
    except Exception as ex:
        impl.reset_handlers()
        ctx.property_failure(None, f"{name}: jvp_estimate raised {type(ex).__name__}: {str(ex)[:200]}", case)
        return
    sites = spec["sites"]
    eps = spec.get("eps", [])
    # exact expectation and derivative by enumeration of ALL sites (closed form, differentiated by jax.grad of my own function)

    def exact(th):
        tot = 0.0
        for bs in itertools.product([True, False], repeat=len(sites)):
            tot = tot + spec["prob"](bs, th) * spec["val"](bs, th, eps)
        return tot
    want_v, want_d = float(exact(jnp.float32(theta))), float(jax.grad(exact)(jnp.float32(theta)))
    tot_w = sum(w for _, w, _, _ in res)
    mean_v = sum(w * v for _, w, v, _ in res)
    mean_d = sum(w * t for _, w, _, t in res)
    case.update({"internal_outcomes": len(res), "total_weight": tot_w, "mean_value": mean_v, "mean_tangent": mean_d,
                 "exact_value": want_v, "exact_derivative": want_d, "per_outcome": [[o, w, v, t] for o, w, v, t in res[:8]]})
    tol = 2e-4 * (1 + abs(want_d) + abs(want_v))
    if abs(tot_w - 1.0) > 1e-5:
        ctx.correspondence_break("exhaustive exploration of internal Bernoullis", f"weights sum to {tot_w}", case)
    if abs(mean_v - want_v) > tol:
        ctx.property_failure(None, f"{name} at theta={theta}: outcome-weighted mean of estimate {mean_v} != E[f] = {want_v}", case)
    if abs(mean_d - want_d) > tol:
        ctx.property_failure(None, f"{name} at theta={theta}: outcome-weighted mean of the tangent {mean_d} != d/dtheta E[f] = {want_d}", case)
    if all(s_ in ("enum", "enum_par") for s_ in sites) and (len(res) != 1 or abs(res[0][2] - want_v) > tol or abs(res[0][3] - want_d) > tol):
        ctx.property_failure(None, f"{name}: enumeration primitive is not exact / not zero-variance", case)
    # Lean model on single-site programs
    if len(sites) == 1 and name.startswith(("one-site", "where")):
        th = jnp.float32(theta)
        kv = lambda b: float(spec["val"]((b,), th, eps))
        kd = lambda b: float(jax.grad(lambda t: spec["val"]((b,), t, eps))(th))
        p = float(spec["prob"]((True,), th))
        pd = float(jax.grad(lambda t: spec["prob"]((True,), t))(th))
        kind = {"enum": "enum", "enum_par": "enum", "mvd": "mvd", "reinforce": "reinforce"}[sites[0]]
        for o, _w, v, t in res:
            b = o[0] if o else True
            line = sexp.dumps(["adev-flip", kind, "T" if b else "F", fq(p), fq(pd), fq(kv(True)), fq(kd(True)), fq(kv(False)), fq(kd(False))])
            r = sexp.loads(common.driver_run([line])[0])
            mv, md = float(Fr(r[1])), float(Fr(r[2]))
            if abs(mv - v) > tol or abs(md - t) > tol:
                ctx.correspondence_break("Adev model (flipEnum/reinforce/mvd) vs prim_jvp_estimate", f"{name} outcome {o}: model ({mv},{md}) impl ({v},{t})", case)
    ctx.case(sample={k: case[k] for k in ("kind", "program", "theta", "mean_tangent", "exact_derivative")} if ctx.coverage["evaluations"] % 6 == 0 else None,
             nontrivial_key=(name, theta))
    ctx.count("program:" + name.split(":")[0])


def fq(x):
    return Fr(float(x)).limit_denominator(10 ** 9)


# ----------------------------------------------------------------------------- described programs: implementation vs AdevProg model

TH = "th"
HALF = Fr(1, 2)


def _mul(*ts):
    r = ts[0]
    for t in ts[1:]:
        r = ("*", r, t)
    return r


def described_programs(thorough):
    """name -> description (harness/adevprog.py).  The first three families are the programs of `programs()` above
    (one_site, where_site, two_sites) written as data; the rest are 3-site programs mixing estimators and a categorical."""
    D = {}
    for e in ("enum", "enum_par", "reinforce", "mvd"):
        D["one-site:" + e] = ("flip", e, TH, ("ret", ("cond", 0, _mul(TH, TH), _mul(3, TH))))
    for e in ("enum", "mvd", "reinforce"):
        D["where:" + e] = ("flip", e, ("+", _mul(HALF, TH), Fr(1, 4)), ("ret", ("if", 0, ("sin_th",), _mul(2, TH, TH))))
    q2 = ("if", 0, _mul(HALF, TH), ("-", 1, _mul(HALF, TH)))
    ret2 = ("ret", ("+", ("*", ("if", 0, 1, 2), ("if", 1, TH, ("neg", _mul(TH, TH)))), TH))
    for e1, e2 in (("reinforce", "mvd"), ("enum", "reinforce"), ("mvd", "enum"), ("reinforce", "reinforce"), ("mvd", "mvd"), ("enum_par", "mvd"),
                   ("mvd", "reinforce"), ("enum_par", "reinforce")):
        D[f"two-sites:{e1}+{e2}"] = ("flip", e1, TH, ("flip", e2, q2, ret2))
    # three sites; every later parameter depends on earlier outcomes, the result on all outcomes and (non-linearly) on theta
    q3 = ("if", 1, TH, ("/", ("+", 1, TH), 4))
    ret3 = ("ret", ("+", _mul(("+", ("o", 0), 1), ("if", 1, TH, _mul(TH, TH)), ("if", 2, 2, ("neg", TH))), ("/", ("o", 1), ("+", 1, TH))))
    D["three:reinforce>mvd>enum"] = ("flip", "reinforce", TH, ("flip", "mvd", q2, ("flip", "enum", q3, ret3)))
    D["three:mvd>reinforce>mvd"] = ("flip", "mvd", ("-", 1, _mul(HALF, TH)), ("flip", "reinforce", q2, ("flip", "mvd", q3, ret3)))
    w3 = [_mul(HALF, TH), Fr(1, 4), ("-", Fr(3, 4), _mul(HALF, TH))]                       # normalised weights
    w3u = [TH, ("if", 0, 1, 2), ("-", 2, TH)]                                               # unnormalised, depend on outcome 0
    qc = ("eq", 1, 0, _mul(HALF, TH), ("eq", 1, 1, TH, ("-", 1, TH)))
    retc = ("ret", ("+", _mul(("+", ("o", 1), ("if", 0, 1, 3)), ("if", 2, TH, _mul(TH, TH))), ("o", 0)))
    D["three:reinforce>cat3par>mvd"] = ("flip", "reinforce", TH, ("cat", "enum_par", w3u, ("flip", "mvd", qc, retc)))
    D["three:enum>cat3rf>mvd"] = ("flip", "enum", TH, ("cat", "reinforce", w3u, ("flip", "mvd", qc, retc)))
    retd = ("ret", _mul(("+", ("o", 0), ("if", 1, 1, 3)), ("if", 2, TH, ("/", TH, ("+", 1, TH)))))
    D["three:cat3par>reinforce>enum"] = ("cat", "enum_par", w3, ("flip", "reinforce", ("eq", 0, 2, TH, _mul(HALF, TH)), ("flip", "enum", q3, retd)))
    # sites inside lax.cond branches (different sites follow depending on an earlier outcome: a tree, not a straight line)
    D["branch:reinforce>(mvd|ret)"] = ("flip", "reinforce", TH, ("branch", 0, ("flip", "mvd", _mul(HALF, TH), ("ret", ("if", 1, TH, 2))), ("ret", _mul(TH, TH))))
    D["branch:enum>(cat3rf|mvd)"] = ("flip", "enum", TH, ("branch", 0, ("cat", "reinforce", w3, ("ret", _mul(("+", ("o", 1), 1), TH))),
                                                          ("flip", "mvd", q2, ("ret", ("if", 1, _mul(TH, TH), ("neg", TH))))))
    if thorough:
        D["three:mvd>cat3par>reinforce"] = ("flip", "mvd", TH, ("cat", "enum_par", w3, ("flip", "reinforce", qc, retc)))
        D["three:mvd>mvd>mvd"] = ("flip", "mvd", TH, ("flip", "mvd", q2, ("flip", "mvd", q3, ret3)))
        D["three:enum_par>mvd>reinforce"] = ("flip", "enum_par", TH, ("flip", "mvd", q2, ("flip", "reinforce", q3, ret3)))
    return D


def check_described(G, A, ctx, name, prog, theta, table=None):
    """one described program at one theta: the implementation's internal outcome paths vs the model's estimator
    distribution (a), the weighted means vs the model's exact dual and an independent brute-force sum (b)"""
    case = {"kind": "adev-described", "program": name, "theta": theta, "sites": AP.sites_of(prog)}
    m = AP.model_report(prog, Fr(theta))
    case["driver_line"] = m["line"]
    if not m["guards"] or m["mass"] != 1 or m["mean"] != m["exact"]:
        raise common.Infra(f"described program {name} at theta={theta}: model guards={m['guards']} mass={m['mass']} mean={m['mean']} exact={m['exact']}"
                           " (a description must keep every probability in (0,1))")
    want_v, want_d = float(m["exact"][0]), float(m["exact"][1])
    tol = 2e-4 * (1 + abs(want_d) + abs(want_v))
    bf_v, bf_d = AP.brute_force(prog, theta)
    case.update({"exact_value": want_v, "exact_derivative": want_d, "brute_force": [bf_v, bf_d], "model_paths": m["paths"], "model_outcomes": len(m["est"])})
    if abs(bf_v - want_v) > tol or abs(bf_d - want_d) > tol:
        ctx.correspondence_break("AdevProg.exact vs brute-force expectation", f"{name} at theta={theta}: model ({want_v},{want_d}) brute force ({bf_v},{bf_d})", case)
    try:
        paths = AP.enumerate_paths(A, AP.build(A, prog, table), theta)
    except Exception as ex:
        impl.reset_handlers()
        ctx.property_failure(None, f"{name}: jvp_estimate raised {type(ex).__name__}: {str(ex)[:200]}", case)
        return
    tot_w = sum(w for _, w, _, _ in paths)
    mean_v = sum(w * v for _, w, v, _ in paths)
    mean_d = sum(w * t for _, w, _, t in paths)
    case.update({"internal_outcomes": len(paths), "total_weight": tot_w, "mean_value": mean_v, "mean_tangent": mean_d,
                 "per_outcome": [[o, w, v, t] for o, w, v, t in paths[:8]]})
    if abs(tot_w - 1.0) > 1e-5:
        ctx.correspondence_break("exhaustive exploration of internal draws", f"{name}: weights sum to {tot_w}", case)
    # (a) distribution of the returned dual, entry by entry
    problems, groups = AP.match_distribution(paths, m["est"], lambda v, t: 2e-4 * (1 + abs(v) + abs(t)))
    if problems:
        case["distribution_mismatch"] = problems[:6]
        ctx.correspondence_break("AdevProg.est vs jvp_estimate", f"{name} at theta={theta}: " + "; ".join(problems[:3]), case)
    # (b) weighted means vs the exact expectation and derivative
    if abs(mean_v - want_v) > tol or abs(mean_v - bf_v) > tol:
        ctx.property_failure(None, f"{name} [{' > '.join(case['sites'])}] at theta={theta}: outcome-weighted mean of estimate {mean_v} != E[f] = {want_v}", case)
    if abs(mean_d - want_d) > tol or abs(mean_d - bf_d) > tol:
        ctx.property_failure(None, f"{name} [{' > '.join(case['sites'])}] at theta={theta}: outcome-weighted mean of the tangent {mean_d} != d/dtheta E[f] = {want_d}", case)
    ctx.case(sample={k: case[k] for k in ("kind", "program", "theta", "internal_outcomes", "model_outcomes", "mean_tangent", "exact_derivative")}
             if name.startswith("three") and ctx.coverage["evaluations"] % 4 == 0 else None, nontrivial_key=("described", name, theta))
    ctx.count("described:" + name.split(":")[0])


def extra_checks(G, A, ctx):
    """categorical enumeration, batched (lane) sites, reparam pathwise identity, seed/jit agreement"""
    import jax
    import jax.numpy as jnp
    import jax.random as jr
    # categorical_enum_parallel: exact
    vals = jnp.array([1.0, 2.0, 4.0])

    def fc(th):
        i = A.categorical_enum_parallel(jnp.array([0.0, 1.0, 2.0]) * th)
        return vals[i] * th
    ex = lambda th: jnp.sum(jax.nn.softmax(jnp.array([0.0, 1.0, 2.0]) * th) * vals * th)
    try:
        d = A.expectation(fc).jvp_estimate(A.Dual(jnp.float32(0.5), jnp.float32(1.0)))
        if abs(float(d.primal) - float(ex(0.5))) > 1e-4 or abs(float(d.tangent) - float(jax.grad(ex)(0.5))) > 1e-4:
            ctx.property_failure(None, f"categorical_enum_parallel not exact: ({float(d.primal)},{float(d.tangent)}) vs ({float(ex(0.5))},{float(jax.grad(ex)(0.5))})", {"kind": "categorical-enum"})
    except Exception as e:
        ctx.property_failure(None, f"categorical_enum_parallel raised {type(e).__name__}: {str(e)[:150]}", {"kind": "categorical-enum"})
    ctx.case(nontrivial_key="categorical-enum")
    # batched flip sites (lane Rao-Blackwellised): enumerate all outcomes of 2 lanes
    real_flip = A.flip
    for est_name in ("enum", "mvd"):
        est = {"enum": A.flip_enum, "mvd": A.flip_mvd}[est_name]

        def fb(th):
            b = est(jnp.array([1.0, 0.5]) * th)
            return jnp.sum(jnp.where(b, jnp.array([1.0, 3.0]), jnp.array([-1.0, 0.5])) * th) * jnp.where(b[0] & b[1], 2.0, 1.0)

        def exb(th):
            tot = 0.0
            for b0, b1 in itertools.product([True, False], repeat=2):
                pr = (th if b0 else 1 - th) * (0.5 * th if b1 else 1 - 0.5 * th)
                v = ((1.0 if b0 else -1.0) + (3.0 if b1 else 0.5)) * th * (2.0 if (b0 and b1) else 1.0)
                tot = tot + pr * v
            return tot
        th = 0.5
        mv = md = 0.0
        try:
            for b0, b1 in itertools.product([True, False], repeat=2):
                A.flip = ScriptedFlip(real_flip, [np.array([b0, b1])])
                try:
                    d = A.expectation(fb).jvp_estimate(A.Dual(jnp.float32(th), jnp.float32(1.0)))
                finally:
                    A.flip = real_flip
                pr = (th if b0 else 1 - th) * (0.5 * th if b1 else 1 - 0.5 * th)
                mv += pr * float(d.primal)
                md += pr * float(d.tangent)
            if abs(mv - float(exb(th))) > 1e-4 or abs(md - float(jax.grad(exb)(th))) > 1e-4:
                ctx.property_failure(None, f"batched flip site ({est_name}): mean ({mv},{md}) != exact ({float(exb(th))},{float(jax.grad(exb)(th))})",
                                     {"kind": "batched-site", "estimator": est_name})
        except Exception as e:
            ctx.property_failure(None, f"batched flip site ({est_name}) raised {type(e).__name__}: {str(e)[:150]}", {"kind": "batched-site", "estimator": est_name})
        ctx.case(nontrivial_key=("batched", est_name))
    # batched reparameterised site (scalar loc, vector scale): one independent noise per coordinate
    def fl(th):
        x = A.normal_reparam(th, jnp.array([1.0, 2.0]) * th)
        return x[0] * x[1] + (x[0] - x[1]) ** 2
    n_keys = 8000
    ds = jax.jit(jax.vmap(lambda k: G.seed(lambda: A.expectation(fl).jvp_estimate(A.Dual(jnp.float32(0.75), jnp.float32(1.0))))(k)))(jr.split(jr.key(21), n_keys))
    v, t = np.asarray(ds.primal, dtype=np.float64), np.asarray(ds.tangent, dtype=np.float64)
    exl = lambda th: th * th + (th * th + 4 * th * th)        # E[x0 x1] = th^2 (independent), E[(x0-x1)^2] = th^2 + 4 th^2
    for what, arr, want in (("value", v, float(exl(0.75))), ("tangent", t, float(jax.grad(exl)(0.75)))):
        se = arr.std(ddof=1) / math.sqrt(n_keys)
        if abs(arr.mean() - want) > 5.5 * se + 1e-3:
            ctx.property_failure(None, f"batched normal_reparam site (scalar loc, vector scale): mean {what} {arr.mean():.4f} +- {se:.4f} != exact {want:.4f} "
                                 "(lanes must get independent noise)", {"kind": "batched-reparam", "what": what})
    ctx.case(nontrivial_key="batched-reparam")
    # reparam: pathwise derivative for the noise actually drawn; seed / jit agreement
    def fr(th):
        x = A.normal_reparam(th, jnp.exp(th))
        y = A.uniform_reparam(0.0, th + 1.0)
        return x * x + jnp.sin(y) * th
    key = jr.key(3)
    est = G.seed(lambda t: A.expectation(fr).jvp_estimate(A.Dual(t, jnp.float32(1.0))))
    d1 = est(key, jnp.float32(0.3))
    d2 = jax.jit(est)(key, jnp.float32(0.3))
    # recover the noise by solving from the sampled path: finite-difference check of the pathwise derivative with the same key
    h = 1e-2
    up = G.seed(lambda t: A.expectation(fr).estimate(t))(key, jnp.float32(0.3 + h))
    dn = G.seed(lambda t: A.expectation(fr).estimate(t))(key, jnp.float32(0.3 - h))
    fd = (float(up) - float(dn)) / (2 * h)
    case = {"kind": "reparam-pathwise", "tangent": float(d1.tangent), "finite_difference_same_key": fd}
    if abs(float(d1.tangent) - fd) > 5e-2 * (1 + abs(fd)):
        ctx.property_failure(None, f"reparameterised sites: tangent {float(d1.tangent)} is not the pathwise derivative for the noise drawn ({fd})", case)
    if abs(float(d1.primal) - float(d2.primal)) > 1e-5 or abs(float(d1.tangent) - float(d2.tangent)) > 1e-4:
        ctx.property_failure(None, "seeded jvp_estimate differs between eager and jit", case)
    g = G.seed(lambda t: A.expectation(fr).grad_estimate(t))(key, jnp.float32(0.3))
    if abs(float(g) - float(d1.tangent)) > 1e-4 * (1 + abs(float(g))):
        ctx.property_failure(None, f"grad_estimate {float(g)} != jvp_estimate tangent {float(d1.tangent)} under the same key", case)
    ctx.case(sample=case, nontrivial_key="reparam")


def needs_mc(name, spec):
    sites = spec["sites"]
    later_site_after_mvd = any(s_ == "mvd" and (i < len(sites) - 1 or name.startswith("flip+reparam")) for i, s_ in enumerate(sites))
    return later_site_after_mvd or ("enum_par" in sites and len(sites) > 1)


def site_inside_cond_branch(G, A, ctx):
    """A site INSIDE a lax.cond branch must see the whole rest of the program as its continuation (a repaired defect, fix b0f97e1:
    ADEV.forward_mode applied the continuation of the cond to the RESULT of the branch, so the estimator averaged the branch value first;
    biased for every non-linear computation after the cond, Lean witness `C11_asis_cond_branch_cex`).  Enumeration sites in a branch
    followed by x**2 / exp / a second cond: exact value and gradient; a measure-valued site in a branch followed by exp: exact
    (zero-variance) gradient; linear continuation as a control."""
    import jax
    import jax.numpy as jnp
    import jax.random as jr

    def inner(q):
        return jnp.where(A.flip_enum(q), 2.0, -1.0) * q

    def f_sq(p, q):
        x = jax.lax.cond(A.flip_enum(p), lambda: inner(q), lambda: p)
        return x ** 2

    def f_lin(p, q):
        x = jax.lax.cond(A.flip_enum(p), lambda: inner(q), lambda: p)
        return 3.0 * x + p

    def f_exp2(p, q):       # two conds in sequence, both with a site inside, non-linear end
        x = jax.lax.cond(A.flip_enum(p), lambda: inner(q), lambda: p)
        y = jax.lax.cond(x > 0.5, lambda: jnp.where(A.flip_enum(p), 1.0, 0.0) + x, lambda: x)
        return jnp.exp(y)

    import math
    p, q = 0.3, 0.6

    def E_sq(p, q):
        return p * (q * (2 * q) ** 2 + (1 - q) * q ** 2) + (1 - p) * p ** 2

    def E_lin(p, q):
        return 3 * (p * (q * 2 * q - (1 - q) * q) + (1 - p) * p) + p

    def E_exp2(p, q):
        def second(x):
            return (p * math.exp(1 + x) + (1 - p) * math.exp(x)) if x > 0.5 else math.exp(x)
        return p * (q * second(2 * q) + (1 - q) * second(-q)) + (1 - p) * second(p)

    def num_grad(E):
        h = 1e-5
        return ((E(p + h, q) - E(p - h, q)) / (2 * h), (E(p, q + h) - E(p, q - h)) / (2 * h))

    for name, f, E in (("x**2", f_sq, E_sq), ("linear", f_lin, E_lin), ("cond-then-exp", f_exp2, E_exp2)):
        case = {"kind": "site-inside-cond-branch", "continuation": name, "p": p, "q": q, "exact": E(p, q)}
        try:
            e = A.expectation(f)
            got = float(e.estimate(jnp.float32(p), jnp.float32(q)))
            gp, gq = (float(v) for v in e.grad_estimate(jnp.float32(p), jnp.float32(q)))
            ep, eq = num_grad(E)
            case.update({"estimate": got, "grad": [gp, gq], "exact_grad": [ep, eq]})
            if abs(got - E(p, q)) > 1e-4 * (1 + abs(E(p, q))):
                ctx.property_failure(None, f"flip_enum (zero variance) inside a cond branch followed by {name}: estimate {got:.5f} != exact E[f] = {E(p, q):.5f}", case)
            if abs(gp - ep) > 2e-3 * (1 + abs(ep)) or abs(gq - eq) > 2e-3 * (1 + abs(eq)):
                ctx.property_failure(None, f"flip_enum inside a cond branch followed by {name}: grad_estimate ({gp:.4f}, {gq:.4f}) != exact ({ep:.4f}, {eq:.4f})", case)
        except Exception as e_:
            impl.reset_handlers()
            ctx.property_failure(None, f"site inside a cond branch ({name}) raised {type(e_).__name__}: {str(e_)[:150]}", case)
        ctx.case(sample=case if name == "x**2" else None, nontrivial_key=("site-inside-cond-branch", name))
        ctx.count("site-inside-cond-branch")

    # measure-valued site in a branch, exp afterwards: the MVD flip estimator is exact per draw (both outcomes are evaluated)
    def f_mvd(t):
        x = jax.lax.cond(t > 0.1, lambda: jnp.where(A.flip_mvd(t), 2.0, -1.0), lambda: t)
        return jnp.exp(x)

    case = {"kind": "site-inside-cond-branch", "continuation": "mvd-then-exp"}
    try:
        gs = np.asarray(jax.vmap(lambda k: G.seed(A.expectation(f_mvd).grad_estimate)(k, jnp.float32(0.3)))(jr.split(jr.key(5), 64)))
        want = math.exp(2.0) - math.exp(-1.0)
        case.update({"mean_grad": float(gs.mean()), "exact": want})
        if np.abs(gs - want).max() > 1e-3 * want:
            ctx.property_failure(None, f"flip_mvd inside a cond branch followed by exp: gradient draws in [{gs.min():.4f}, {gs.max():.4f}], the estimator is exactly {want:.4f} for every draw", case)
    except Exception as e_:
        impl.reset_handlers()
        ctx.property_failure(None, f"flip_mvd inside a cond branch raised {type(e_).__name__}: {str(e_)[:150]}", case)
    ctx.case(nontrivial_key=("site-inside-cond-branch", "mvd"))
    ctx.count("site-inside-cond-branch")


def site_inside_call(G, A, ctx):
    """An ADEV site inside a nested jax.jit / jax.checkpoint helper (a repaired defect: the interpreter met the call equation, not the
    site, and JAX's rule for the call inlined the keyless sampler - flip_enum lost its enumeration, every estimator its strategy, and the
    seed key was ignored).  Metamorphic twin test: the helper wrapped in jit / checkpoint (also nested in each other, also inside a cond
    branch) must give, under the same key, the same estimate / grad_estimate / jvp_estimate as the un-wrapped helper; for the
    enumeration primitives also the exact closed forms.
    OPEN finding adev-site-in-uninterpreted-call: the same for scan / while_loop bodies and custom_jvp functions (not inlinable)."""
    import jax
    import jax.numpy as jnp
    import jax.random as jr

    def h_enum(p):
        return jnp.where(A.flip_enum(p), 3.0, 1.0) * p

    def h_rf(p):
        x = A.normal_reinforce(p, 1.0)
        return x * x + jnp.where(A.flip_mvd(jax.nn.sigmoid(p)), x, 2.0 * p)

    def h_rp(p):
        return jnp.sin(A.normal_reparam(p, 0.5)) * p

    # wrapper -> (program with the nested call, the same program without it: key splitting under seed follows the program structure)
    ident = lambda g: g
    in_cond = lambda inner: (lambda g: (lambda p: jax.lax.cond(p > 0.0, lambda: inner(g)(p), lambda: p)))
    wraps = {"jit": (jax.jit, ident), "checkpoint": (jax.checkpoint, ident), "jit(checkpoint)": (lambda g: jax.jit(jax.checkpoint(g)), ident),
             "jit-in-cond": (in_cond(jax.jit), in_cond(ident))}
    helpers = {"flip_enum": (h_enum, lambda p: (p * 3 * p + (1 - p) * p, 1 + 4 * p)), "normal_reinforce+flip_mvd": (h_rf, None), "normal_reparam": (h_rp, None)}
    for hname, (h, exact) in helpers.items():
        for p in (0.3, 0.7):
            key = jr.key(17)
            x = jnp.float32(p)
            for wname, (w, w_plain) in wraps.items():
                plain = A.expectation(lambda q, h=h, w_plain=w_plain: w_plain(h)(q))
                want_v = float(G.seed(plain.estimate)(key, x))
                want_g = float(G.seed(plain.grad_estimate)(key, x))
                if exact is not None:
                    ev, eg = exact(p)
                    if abs(want_v - ev) > 1e-5 or abs(want_g - eg) > 1e-4:
                        ctx.property_failure(None, f"{hname} (no nested call): estimate / grad_estimate ({want_v}, {want_g}) != exact ({ev}, {eg})", {"kind": "site-inside-call", "helper": hname, "p": p})
                case = {"kind": "site-inside-call", "helper": hname, "wrapper": wname, "p": p, "plain": [want_v, want_g]}
                try:
                    e = A.expectation(lambda q, w=w: w(h)(q))
                    got_v = float(G.seed(e.estimate)(key, x))
                    got_g = float(G.seed(e.grad_estimate)(key, x))
                    got_v2 = float(G.seed(e.estimate)(jr.key(18), x))
                    case["wrapped"] = [got_v, got_g]
                    if abs(got_v - want_v) > 1e-5 * (1 + abs(want_v)) or abs(got_g - want_g) > 1e-4 * (1 + abs(want_g)):
                        ctx.property_failure(None, f"{hname} inside a nested {wname} helper: estimate / grad_estimate ({got_v:.5f}, {got_g:.5f}) differ from the same program "
                                             f"without the wrapper under the same key ({want_v:.5f}, {want_g:.5f}) - the site lost its estimator semantics", case)
                    elif exact is None and got_v2 == got_v:
                        ctx.property_failure(None, f"{hname} inside a nested {wname} helper: the estimate does not depend on the seed key", case)
                except Exception as ex:
                    impl.reset_handlers()
                    ctx.property_failure(None, f"{hname} inside a nested {wname} helper raised {type(ex).__name__}: {str(ex)[:140]}", case)
                ctx.case(sample=case if (wname, p) == ("jit", 0.3) else None, nontrivial_key=("site-inside-call", hname, wname, p))
                ctx.count("site-inside-call")
    # open finding: bodies the interpreter cannot inline
    def scan_prog(p):
        return jax.lax.scan(lambda c, t: (c + h_enum(p), c), 0.0, jnp.arange(2))[0]

    cj = jax.custom_jvp(h_enum)
    cj.defjvp(lambda pr, t: jax.jvp(h_enum, pr, t))
    for name, f, ev in (("scan body", scan_prog, lambda p: 2 * (p * 3 * p + (1 - p) * p)), ("custom_jvp function", lambda p: cj(p), lambda p: p * 3 * p + (1 - p) * p)):
        p = 0.3
        case = {"kind": "site-inside-uninterpreted-call", "construct": name, "p": p, "exact": ev(p)}
        try:
            got = float(G.seed(A.expectation(f).estimate)(jr.key(17), jnp.float32(p)))
            case["estimate"] = got
            if abs(got - ev(p)) > 1e-5:
                # as the code is: the site is sampled once (a single outcome of the enumeration), so the value is one of the per-outcome values
                per_outcome = {"scan body": [2 * 3 * p, 2 * p, 3 * p + p], "custom_jvp function": [3 * p, p]}[name]
                ctx.property_failure("adev-site-in-uninterpreted-call", f"flip_enum (zero variance) inside a {name}: estimate {got:.5f} != exact E[f] = {ev(p):.5f}",
                                     case, matches_asis=any(abs(got - v) < 1e-5 for v in per_outcome))
        except Exception as ex:
            impl.reset_handlers()
            ctx.property_failure("adev-site-in-uninterpreted-call", f"flip_enum inside a {name} raised {type(ex).__name__}: {str(ex)[:120]}", case, matches_asis=False)
        ctx.case(nontrivial_key=("site-inside-uninterpreted-call", name))
        ctx.count("site-inside-uninterpreted-call")


def run(ctx, audit):
    G = impl.load()
    import genjax.adev as A
    site_inside_cond_branch(G, A, ctx)
    site_inside_call(G, A, ctx)
    import interp_tie
    interp_tie.run_adev(ctx, 24 if ctx.thorough else 9)
    P = programs(G, A)
    thetas = [0.25, 0.5, 0.625] if not ctx.thorough else [0.125, 0.25, 0.375, 0.5, 0.625, 0.75, 0.875]
    for name, spec in P.items():
        for th in thetas:
            if needs_mc(name, spec):
                continue        # pure continuations / vectorised continuations sample on their own: Monte Carlo below
            check_program(G, A, ctx, name, spec, th)
    for name, spec in P.items():
        if spec.get("mk") and (needs_mc(name, spec) or ctx.thorough):
            check_program_mc(G, A, ctx, name, spec, thetas[1], 20000 if ctx.thorough else 4000)
    extra_checks(G, A, ctx)
    # described programs: the same description run on the implementation and on the Lean model
    table = AP.estimator_table(A)
    D = described_programs(ctx.thorough)
    if not ctx.thorough:        # quick tier: a seed-dependent part of the slow (lax.cond: one XLA compilation per run) families, one theta each
        drop = ctx.rng.sample([n for n in D if n.startswith("one-site")], 2) + ctx.rng.sample([n for n in D if n.startswith("branch")], 1)
        D = {n: p for n, p in D.items() if n not in drop}
    for name, prog in D.items():
        big = AP.model_report(prog, Fr(thetas[0]))["paths"] > 40          # thorough tier: programs with many internal paths at two thetas only
        for th in ((ctx.rng.sample(thetas, 2) if big else thetas) if ctx.thorough else [ctx.rng.choice(thetas)]):
            check_described(G, A, ctx, name, prog, th, table)
    return {"rule": RULE}


def replay(ctx, payload):
    G = impl.load()
    import genjax.adev as A
    c = payload.get("case") or {}
    if c.get("kind") == "adev-program":
        check_program(G, A, ctx, c["program"], programs(G, A)[c["program"]], c["theta"])
    elif c.get("kind") == "adev-described":
        check_described(G, A, ctx, c["program"], described_programs(True)[c["program"]], c["theta"])
    elif c.get("kind") == "adev-program-mc":
        check_program_mc(G, A, ctx, c["program"], programs(G, A)[c["program"]], c["theta"], c["keys"])
    else:
        extra_checks(G, A, ctx)
    for i in ctx.issues:
        print("REPRODUCED:", i["what"])
    for i in ctx.corr_breaks:
        print("REPRODUCED (model/implementation disagreement):", i["name"], "-", i["what"])
    if not ctx.issues and not ctx.corr_breaks:
        print("not reproduced")
    return 1 if (ctx.issues or ctx.corr_breaks) else 0
