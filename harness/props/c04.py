"""C04 — see DESIGN.md §3; generators in gfi_props.py, runner/monitors in gfi_run.py."""
import common
import gfi_run

RULE = "structural corpus first (gfi_corpus.py: 9 hand-built nestings - Cond over nested @gen at shared / disjoint addresses, Cond of Cond, Scan fed by an upstream choice, Cond in a Scan step, Vmap of nested fn, Vmap of Vmap, Scan of repeat, Cond of Scan, Vmap lanes with a Cond - each with a fixed op script incl. argument changes that flip the check); then random programs; fully constrained generate, then regenerate with sel(), sel(()) and two random selection expressions (str/tuple/dict/union/complement/intersection aimed at the program's addresses), with and without argument changes; monitors: unselected bit-identical, selected = fresh probe draw given new parents, weight formula when no Cond switches, discard, definedness"

SHARDS_QUICK, PER_SHARD_QUICK = 13, 5
SHARDS_THOROUGH, PER_SHARD_THOROUGH = 14, 18


def run(ctx, audit):
    ns, per = (SHARDS_THOROUGH, PER_SHARD_THOROUGH) if ctx.thorough else (SHARDS_QUICK, PER_SHARD_QUICK)
    common.run_sharded(ctx, "gfi_props", "shard_c04", [(i, per, ns) for i in range(ns)])
    extra(ctx)
    import gfi_extras
    gfi_extras.cond_mixed_support(ctx, "C04")
    gfi_extras.real_distribution_keyword_lanes(ctx, "C04")
    return {"rule": RULE}


def extra(ctx):
    pass


def replay(ctx, payload):
    return gfi_run.replay_case(ctx, payload, roundtrip=False)
