"""C17 — the ELBO objective is unbiased, tight at the posterior, and ascended by VI."""
import math
from fractions import Fraction as Fr

import numpy as np

import common
import impl
import sexp

RULE = ("conjugate Gaussian targets (1-d, 2-d with correlated posterior, 2-latent chain) with known posterior and evidence; mean-field and "
        "full-covariance (non-diagonal Cholesky) families, reparameterised and score-function, plus a structured two-site score-function family: "
        "ELBO per seeded draw at the exact posterior = log p(x); mean ELBO / mean grad_estimate over seeded draws off the posterior vs closed "
        "forms (CLT band z<5.5) and <= log p(x); optimize_vi / elbo_vi: every iterate of param_history vs the exact recurrence "
        "params + lr*grad (Lean optimiser model, rational gradients); discrete targets/families built from flip/categorical with dyadic "
        "probabilities (term language of the GFI model): for EVERY outcome z of the family (scripted draws) exp(elbo.estimate) vs the exact "
        "ratio p(x,z)/q(z) of the Lean model (driver `vi-elbo`: elboDraw/elboRatio over rationals) and of an independent Fraction oracle, "
        "sum_z q(z)*ratio = evidence, family = exact posterior => every draw = log p(x), seeded draws with the library's own samplers land on "
        "those ratios and average to sum_z q(z) log ratio <= log p(x); a family proposing at an observed address (merge precedence; model vs "
        "implementation only); non-trivial = every (target, family, parameter) combination")


def z_ok(arr, want, extra=0.0):
    arr = np.asarray(arr, dtype=np.float64)
    se = arr.std(ddof=1) / math.sqrt(len(arr)) if arr.std() > 0 else 0.0
    return abs(arr.mean() - want) <= 5.5 * se + 2e-3 * (1 + abs(want)) + extra, float(arr.mean()), float(se)


def gaussian_expect(f, dim):
    """E[f(e)] for e ~ N(0, I) when f is (at most) quadratic: f(0) + trace(Hessian)/2 (exact)"""
    import jax
    import jax.numpy as jnp
    z = jnp.zeros(dim)
    return f(z) + 0.5 * jnp.trace(jax.hessian(f)(z))


def one_dim(G, ctx, n):
    import jax
    import jax.numpy as jnp
    import jax.random as jr
    from jax.scipy.stats import norm
    from genjax.inference.vi import elbo_factory, mean_field_normal_family
    normal = G.normal

    @G.gen
    def target():
        z = normal.repeat(1)(0.0, 1.0) @ "x"      # latent named "x" (the families sample address "x")
        y = normal(z[0], 0.5) @ "y"
        return y
    y = 0.8
    s2 = 1.0 / (1.0 + 1.0 / 0.25)
    m = s2 * y / 0.25
    logZ = float(norm.logpdf(y, 0.0, math.sqrt(1.25)))
    for est in ("reparam", "reinforce"):
        fam = mean_field_normal_family(1, est)
        elbo = elbo_factory(target, fam, {"y": jnp.float32(y)})
        post = jnp.array([m, 0.5 * math.log(s2)], dtype=jnp.float32)
        keys = jr.split(jr.key(ctx.seed + 1), 64)
        vals = np.asarray(jax.vmap(lambda k: G.seed(elbo.estimate)(k, post))(keys))
        case = {"kind": "elbo-1d", "estimator": est}
        if not np.allclose(vals, logZ, atol=2e-3):
            ctx.property_failure(None, f"ELBO at the exact posterior is not log p(x) for every draw ({est}): range [{vals.min():.4f}, {vals.max():.4f}] vs {logZ:.4f}", case)
        # off the posterior: unbiased for the closed-form ELBO, below log p(x); gradient unbiased
        params = jnp.array([0.1, -0.2], dtype=jnp.float32)

        def closed(p):
            mu, sd = p[0], jnp.exp(p[1])
            f = lambda e: norm.logpdf(mu + sd * e[0], 0.0, 1.0) + norm.logpdf(y, mu + sd * e[0], 0.5) - norm.logpdf(mu + sd * e[0], mu, sd)
            return gaussian_expect(f, 1)
        keys = jr.split(jr.key(ctx.seed + 2), n)
        vals = np.asarray(jax.jit(jax.vmap(lambda k: G.seed(elbo.estimate)(k, params)))(keys))
        ok, mean, se = z_ok(vals, float(closed(params)))
        case.update({"mean_elbo": mean, "closed_form": float(closed(params)), "log_evidence": logZ})
        if not ok:
            ctx.property_failure(None, f"mean ELBO {mean:.4f} +- {se:.4f} != E_q[log p(x,z) - log q(z)] = {float(closed(params)):.4f} ({est})", case)
        if mean - 5.5 * se > logZ:
            ctx.property_failure(None, f"mean ELBO {mean:.4f} exceeds log p(x) = {logZ:.4f}", case)
        grads = np.asarray(jax.jit(jax.vmap(lambda k: G.seed(elbo.grad_estimate)(k, params)))(keys))
        want_g = np.asarray(jax.grad(closed)(params))
        for j in range(2):
            ok, mean, se = z_ok(grads[:, j], float(want_g[j]))
            if not ok:
                ctx.property_failure(None, f"mean grad_estimate[{j}] {mean:.4f} +- {se:.4f} != gradient of the ELBO {float(want_g[j]):.4f} ({est})", case)
        ctx.case(sample=case, nontrivial_key=("1d", est))
        ctx.count("elbo-1d:" + est)


def two_dim_fullcov(G, ctx, n):
    import jax
    import jax.numpy as jnp
    import jax.random as jr
    from jax.scipy.stats import multivariate_normal as mvn, norm
    from genjax.inference.vi import elbo_factory, full_covariance_normal_family
    normal = G.normal
    Hm = jnp.array([[1.0, 0.5], [0.0, 1.0], [1.0, -1.0]])

    @G.gen
    def target():
        z = G.multivariate_normal(jnp.zeros(2), jnp.eye(2)) @ "x"
        y = normal.vmap(in_axes=(0, None))(Hm @ z, 0.7) @ "y"
        return y
    y = jnp.array([0.5, -0.3, 1.2])
    prec = jnp.eye(2) + Hm.T @ Hm / 0.49
    S = jnp.linalg.inv(prec)
    m = S @ (Hm.T @ y / 0.49)
    logZ = float(mvn.logpdf(y, jnp.zeros(3), Hm @ Hm.T + 0.49 * jnp.eye(3)))
    for est in ("reparam", "reinforce"):
        fam = full_covariance_normal_family(2, est)
        elbo = elbo_factory(target, fam, {"y": y})
        post = {"mean": m, "chol_cov": jnp.linalg.cholesky(S)}
        keys = jr.split(jr.key(ctx.seed + 3), 32)
        vals = np.asarray(jax.vmap(lambda k: G.seed(elbo.estimate)(k, post))(keys))
        case = {"kind": "elbo-2d-fullcov", "estimator": est}
        if not np.allclose(vals, logZ, atol=5e-3):
            ctx.property_failure(None, f"full-covariance ELBO at the exact posterior is not log p(x) for every draw ({est}): [{vals.min():.4f},{vals.max():.4f}] vs {logZ:.4f}", case)
        L = jnp.array([[1.2, 0.0], [-0.9, 0.4]])        # strongly non-diagonal Cholesky factor, off the posterior
        params = {"mean": jnp.array([0.2, -0.1]), "chol_cov": L}

        def closed(p):
            mu, Lc = p["mean"], p["chol_cov"]
            cov = Lc @ Lc.T

            def f(e):
                z = mu + Lc @ e
                return mvn.logpdf(z, jnp.zeros(2), jnp.eye(2)) + jnp.sum(norm.logpdf(y, Hm @ z, 0.7)) - mvn.logpdf(z, mu, cov)
            return gaussian_expect(f, 2)
        keys = jr.split(jr.key(ctx.seed + 4), 4 * n)
        vals = np.asarray(jax.jit(jax.vmap(lambda k: G.seed(elbo.estimate)(k, params)))(keys))
        ok, mean, se = z_ok(vals, float(closed(params)))
        case.update({"mean_elbo": mean, "closed_form": float(closed(params)), "log_evidence": logZ})
        if not ok:
            ctx.property_failure(None, f"full-covariance family ({est}): mean ELBO {mean:.4f} +- {se:.4f} != E_q[log p - log q] = {float(closed(params)):.4f}", case)
        if est == "reparam":
            grads = jax.jit(jax.vmap(lambda k: G.seed(elbo.grad_estimate)(k, params)))(keys)
            want = jax.grad(closed)(params)
            for j in range(2):
                ok, mean, se = z_ok(np.asarray(grads["mean"])[:, j], float(want["mean"][j]))
                if not ok:
                    ctx.property_failure(None, f"full-covariance reparam: mean grad wrt mean[{j}] {mean:.4f} +- {se:.4f} != {float(want['mean'][j]):.4f}", case)
        ctx.case(sample=case, nontrivial_key=("2d", est))
        ctx.count("elbo-2d:" + est)


def structured_reinforce(G, ctx, n):
    """two score-function sites, the second one's parameters depend on theta AND on the first draw"""
    import jax
    import jax.numpy as jnp
    import jax.random as jr
    from jax.scipy.stats import norm
    from genjax.adev import normal_reinforce
    from genjax.inference.vi import elbo_factory
    normal = G.normal

    @G.gen
    def target():
        z1 = normal(0.0, 1.0) @ "z1"
        z2 = normal(z1, 1.0) @ "z2"
        y = normal(z2, 0.5) @ "y"
        return y

    @G.gen
    def family(constraint, p):
        z1 = normal_reinforce(p[0], jnp.exp(p[1])) @ "z1"
        z2 = normal_reinforce(p[2] + p[3] * z1, jnp.exp(p[4])) @ "z2"
        return z2
    y = 0.9
    elbo = elbo_factory(target, family, {"y": jnp.float32(y)})
    params = jnp.array([0.2, -0.3, 0.1, 0.4, -0.2], dtype=jnp.float32)

    def closed(p):
        def f(e):
            z1 = p[0] + jnp.exp(p[1]) * e[0]
            z2 = p[2] + p[3] * z1 + jnp.exp(p[4]) * e[1]
            lp = norm.logpdf(z1, 0, 1) + norm.logpdf(z2, z1, 1) + norm.logpdf(y, z2, 0.5)
            lq = norm.logpdf(z1, p[0], jnp.exp(p[1])) + norm.logpdf(z2, p[2] + p[3] * z1, jnp.exp(p[4]))
            return lp - lq
        return gaussian_expect(f, 2)
    keys = jr.split(jr.key(ctx.seed + 5), n)
    grads = np.asarray(jax.jit(jax.vmap(lambda k: G.seed(elbo.grad_estimate)(k, params)))(keys))
    want = np.asarray(jax.grad(closed)(params))
    case = {"kind": "structured-reinforce", "mean_grad": grads.mean(axis=0).tolist(), "closed_form_grad": want.tolist()}
    for j in range(5):
        ok, mean, se = z_ok(grads[:, j], float(want[j]))
        if not ok:
            ctx.property_failure(None, f"structured score-function family: mean grad_estimate[{j}] {mean:.4f} +- {se:.4f} != {float(want[j]):.4f}", case)
    ctx.case(sample=case, nontrivial_key="structured-reinforce")
    ctx.count("structured-reinforce")


def optimiser(G, ctx):
    import jax
    import jax.numpy as jnp
    from genjax.adev import expectation
    from genjax.inference.vi import optimize_vi
    for (c, lr, nit, p0) in ((Fr(3, 2), Fr(1, 4), 6, Fr(-1, 2)), (Fr(-1), Fr(1, 8), 9, Fr(2)), (Fr(1, 2), Fr(1, 2), 4, Fr(0))):
        obj = expectation(lambda p: -0.5 * jnp.sum((p - float(c)) ** 2))      # deterministic objective: grad = c - p
        res = optimize_vi(obj, jnp.array([float(p0)], dtype=jnp.float32), learning_rate=float(lr), n_iterations=nit)
        hist = np.asarray(res.param_history).reshape(-1)
        r = sexp.loads(common.driver_run([sexp.dumps(["vi-optimize", c, lr, nit, p0])])[0])
        want = np.array([float(Fr(t)) for t in r[1]])
        case = {"kind": "optimiser", "c": str(c), "lr": str(lr), "n": nit, "history": hist.tolist(), "recurrence": want.tolist()}
        if len(hist) != nit or not np.allclose(hist, want, rtol=1e-5, atol=1e-6):
            ctx.property_failure(None, f"optimize_vi history {hist.tolist()} is not params + lr*grad at every iteration {want.tolist()}", case)
        if abs(float(np.asarray(res.final_params).reshape(-1)[0]) - want[-1]) > 1e-5 or int(res.n_iterations.value) != nit:
            ctx.property_failure(None, "optimize_vi final_params / n_iterations inconsistent with the history", case)
        ctx.case(sample=case, nontrivial_key=("opt", str(c), str(lr), nit))
        ctx.count("optimiser")


# ----------------------------------------------------------------------------- discrete targets / families (model: Model/ViElbo.lean)
def _C(q):
    return ("c", Fr(q))


def _fn(*calls, ret):
    b = ("ret", ret)
    for addr, d, es in reversed(calls):
        b = ("call", addr, ("dist", d), list(es), b)
    return ("fn", b)


def _calls(term):
    out, b = [], term[1]
    while b[0] == "call":
        out.append((b[1], b[2][1], b[3]))
        b = b[4]
    return out, b[1]


V = lambda i: ("v", i)


def discrete_cases(rng):
    """(name, target term, family term, family params, constraint {addr: value}, flags).  Distribution sites: (dist 0) = flip(p),
    (dist 1) = categorical over the probabilities given as scalar arguments.  A target takes no arguments (its env is the list of
    its own draws); the family's env starts with its parameters."""
    half = lambda e: ("*", e, _C(Fr(1, 2)))
    th = rng.choice([Fr(1, 4), Fr(1, 2), Fr(1, 8), Fr(5, 8), Fr(7, 8)])
    th2 = rng.choice([Fr(1, 4), Fr(1, 8), Fr(3, 8)])
    # z ~ flip(1/4); k ~ cat(z ? (1/2,1/4,1/4) : (1/8,1/8,3/4)); y ~ flip(k == 2 ? 3/4 : 1/4)
    t1 = _fn(("z", 0, [_C(Fr(1, 4))]),
             ("k", 1, [("+", _C(Fr(1, 8)), ("*", V(0), _C(Fr(3, 8)))), ("+", _C(Fr(1, 8)), ("*", V(0), _C(Fr(1, 8)))),
                       ("-", _C(Fr(3, 4)), half(V(0)))]),
             ("y", 0, [("+", _C(Fr(1, 4)), half(("<", _C(1), V(1))))]), ret=V(2))
    # family(theta, theta2): z ~ flip(theta); k ~ cat(z ? (1/2, 1/2 - theta2, theta2) : (1/4, 1/4, 1/2))
    q1 = _fn(("z", 0, [V(0)]),
             ("k", 1, [("+", _C(Fr(1, 4)), ("*", V(2), _C(Fr(1, 4)))),
                       ("+", _C(Fr(1, 4)), ("*", V(2), ("-", _C(Fr(1, 4)), V(1)))),
                       ("+", _C(Fr(1, 2)), ("*", V(2), ("-", V(1), _C(Fr(1, 2)))))]), ret=V(3))
    # b ~ flip(1/2); y ~ flip(1/4 + b/2):  y = 1 => p(x) = 1/2, posterior P(b = 1) = 3/4
    t2 = _fn(("b", 0, [_C(Fr(1, 2))]), ("y", 0, [("+", _C(Fr(1, 4)), half(V(0)))]), ret=V(1))
    q2 = _fn(("b", 0, [V(0)]), ret=V(1))
    # k ~ cat(1/4,1/4,1/2); y ~ flip((1/2,1/4,1/8)[k]):  y = 1 => joint (1/8,1/16,1/16), p(x) = 1/4, posterior (1/2,1/4,1/4)
    t3 = _fn(("k", 1, [_C(Fr(1, 4)), _C(Fr(1, 4)), _C(Fr(1, 2))]),
             ("y", 0, [("+", ("-", _C(Fr(1, 2)), ("*", V(0), _C(Fr(1, 4)))), ("*", ("<", _C(1), V(0)), _C(Fr(1, 8))))]), ret=V(1))
    q3 = _fn(("k", 1, [V(0), V(1), V(2)]), ret=V(3))
    # the family ALSO proposes at the observed address y (merge(constraint, z): z wins)
    q4 = _fn(("b", 0, [V(0)]), ("y", 0, [_C(Fr(1, 4))]), ret=V(1))
    # observed categorical, latent flip:  b ~ flip(3/8); k ~ cat(b ? (1/2,1/4,1/4) : (1/8,1/8,3/4)), k = 2 observed
    t5 = _fn(("b", 0, [_C(Fr(3, 8))]),
             ("k", 1, [("+", _C(Fr(1, 8)), ("*", V(0), _C(Fr(3, 8)))), ("+", _C(Fr(1, 8)), ("*", V(0), _C(Fr(1, 8)))),
                       ("-", _C(Fr(3, 4)), half(V(0)))]), ret=V(1))
    return [
        ("flip-cat", t1, q1, [th, th2], {"y": 1}, {}),
        ("posterior-flip", t2, q2, [Fr(3, 4)], {"y": 1}, {"posterior": Fr(1, 2)}),
        ("off-posterior-flip", t2, q2, [th], {"y": 1}, {}),
        ("posterior-cat", t3, q3, [Fr(1, 2), Fr(1, 4), Fr(1, 4)], {"y": 1}, {"posterior": Fr(1, 4)}),
        ("off-posterior-cat", t3, q3, [Fr(1, 4), Fr(1, 4) + th2 / 2, Fr(1, 2) - th2 / 2], {"y": 1}, {}),
        ("observed-cat", t5, q2, [th], {"k": 2}, {}),
        ("shared-address", t2, q4, [th], {"y": 1}, {"shared": True}),
    ]


def ref_mass(term, args, choices):
    """independent oracle: product of the site masses of `term` on the choice dict (Fractions); None if an address is missing"""
    import gfi
    calls, _ = _calls(term)
    env, mass = list(args), Fr(1)
    for addr, d, es in calls:
        ps = [gfi.rev(e, env) for e in es]
        if addr not in choices:
            return None
        v = choices[addr]
        if d == 0:
            mass *= ps[0] if v == 1 else (1 - ps[0] if v == 0 else Fr(0))
        else:
            mass *= ps[int(v)] if 0 <= v < len(ps) and int(v) == v else Fr(0)
        env.append(Fr(v))
    return mass


def ref_outcomes(term, args):
    """every outcome of the family: [(choices dict, probability)]"""
    import gfi
    calls, _ = _calls(term)
    outs = [({}, list(args), Fr(1))]
    for addr, d, es in calls:
        nxt = []
        for ch, env, pr in outs:
            ps = [gfi.rev(e, env) for e in es]
            table = [(0, 1 - ps[0]), (1, ps[0])] if d == 0 else list(enumerate(ps))
            for v, p in table:
                nxt.append(({**ch, addr: v}, env + [Fr(v)], pr * p))
        outs = nxt
    return [(ch, pr) for ch, _, pr in outs]


def build_discrete(G, term, dists, family, scripted=False):
    """real genjax function for a Fn-of-Distributions term; dists[d] is the distribution object called at a site of kind d.
    family: the first argument is the constraint (ignored, as in mean_field_normal_family).  scripted: the last argument is a dict
    {address: value} handed to the (scripted) samplers as an extra distribution argument."""
    import jax.numpy as jnp
    import gfi
    calls, ret = _calls(term)

    def f(*args):
        args = list(args[1:] if family else args)
        forced = args.pop() if scripted else None
        env = [jnp.asarray(a, jnp.float32) for a in args]
        for addr, d, es in calls:
            vals = [jnp.asarray(gfi.ev(e, env, jnp), jnp.float32) for e in es]
            prm = vals[0] if d == 0 else jnp.log(jnp.stack(vals))
            v = (dists[d](prm, forced[addr]) if scripted else dists[d](prm)) @ addr
            env.append(jnp.asarray(v, jnp.float32))
        return gfi.ev(ret, env, jnp)
    return G.gen(f)


def impl_value(d, v):
    import jax.numpy as jnp
    return jnp.asarray(bool(v)) if d == 0 else jnp.asarray(int(v), jnp.int32)


def discrete_elbo(G, ctx, n_seeded=2000):
    import jax
    import jax.numpy as jnp
    import jax.random as jr
    import genjax.adev as A
    import gfi
    from genjax.core import distribution
    from genjax.inference.vi import elbo_factory
    real = [G.flip, G.categorical]

    def cat_keyful(key, logits, sample_shape=()):
        return jr.categorical(key, logits, shape=tuple(sample_shape) + tuple(jnp.shape(logits)[:-1]))
    lib = [A.flip_reinforce, distribution(A.reinforce(G.categorical.sample, G.categorical.logpdf, cat_keyful), G.categorical.logpdf)]

    def scripted(d):
        # REINFORCE site whose sampler returns its last argument (the scripted draw, passed as a float); the density is the real one
        # on the other arguments
        lp = lambda v, *a: real[d].logpdf(v, *a[:-1])
        cast = (lambda u: u != 0) if d == 0 else (lambda u: u.astype(jnp.int32))
        return distribution(A.reinforce(lambda *a: cast(a[-1]), lp, lambda key, *a, sample_shape=(): cast(a[-1])), lp)
    scr = [scripted(0), scripted(1)]
    tol = dict(rtol=1e-4, atol=1e-6)
    cases = discrete_cases(ctx.rng)
    lines = [sexp.dumps(["vi-elbo", gfi.gf_sexp(t), [], gfi.gf_sexp(q), list(th), gfi.cm_sexp(("node", {a: ("leaf", Fr(v)) for a, v in x.items()}))])
             for _, t, q, th, x, _ in cases]
    outs = common.driver_run(lines)
    for (name, t, q, th, x, flags), line in zip(cases, outs):
        r = sexp.loads(line)
        case = {"kind": "elbo-discrete", "name": name, "family_params": [str(p) for p in th], "constraint": x}
        if r[0] != "ok":
            ctx.correspondence_break("C17.elbo_discrete", f"the Lean driver rejected the vi-elbo query: {line[:200]}", case)
            continue
        fields = {k[0]: k[1:] for k in r[1:]}
        rows = {}
        for row in fields["rows"]:
            rf = {k[0]: k[1] for k in row[1:]}
            ch = gfi.parse_cm(rf["choices"])
            key = tuple(sorted((a, int(v[1])) for a, v in ch[1].items())) if ch else None
            rows[key] = {k: (None if rf[k] == "err" else Fr(rf[k])) for k in ("prob", "qmass", "joint", "ratio", "draw")}
        tcalls, qcalls = dict((a, d) for a, d, _ in _calls(t)[0]), dict((a, d) for a, d, _ in _calls(q)[0])
        shared = bool(flags.get("shared"))
        constraint = {a: impl_value(tcalls[a], v) for a, v in x.items()}
        fam_lib = build_discrete(G, q, lib, True)
        target = build_discrete(G, t, real, False)
        fam_scr = build_discrete(G, q, scr, True, scripted=True)
        theta = [jnp.float32(float(p)) for p in th]
        scripted_estimate = jax.jit(lambda forced: elbo_factory(target, fam_scr, constraint).estimate(*theta, forced))
        family_logq = jax.jit(lambda zc: fam_lib.assess(zc, constraint, *theta)[0])
        ref = ref_outcomes(q, th)
        # the model enumerates the same outcomes with the same probabilities as the oracle (both sides exact)
        if sorted(rows, key=repr) != sorted((tuple(sorted(ch.items())) for ch, _ in ref), key=repr):
            ctx.correspondence_break("C17.elbo_discrete", f"{name}: the model's outcomes of the family differ from the enumeration of its sites", case)
            continue
        evidence_ref, total, elbo_ref, per_z = Fr(0), 0.0, 0.0, []
        for ch, pr in ref:
            key = tuple(sorted(ch.items()))
            m = rows[key]
            merged = {**x, **ch}                                   # the family's draw wins on a shared address (merge(x, x_): x_)
            joint = ref_mass(t, [], merged)
            want = joint / pr if pr != 0 else None
            if m["prob"] != pr or m["qmass"] != pr or m["joint"] != joint or m["ratio"] != want or m["draw"] != want:
                ctx.correspondence_break("C17.elbo_discrete", f"{name}: model row {m} at z={ch} differs from the oracle (q={pr}, p(x,z)={joint})", case)
                continue
            zc = {a: impl_value(qcalls[a], v) for a, v in ch.items()}
            val = float(scripted_estimate({a: jnp.float32(float(v)) for a, v in ch.items()}))
            logq = float(family_logq(zc))
            got = math.exp(val)
            per_z.append((ch, got, float(want), math.exp(logq)))
            total += math.exp(logq) * got
            if not shared:
                evidence_ref += joint
                elbo_ref += float(pr) * math.log(float(want)) if want > 0 else 0.0
            ctx.case(sample=None, nontrivial_key=("discrete", name, key))
            ctx.count("elbo-discrete-draw")
            if not np.isclose(got, float(m["ratio"]), **tol):
                ctx.correspondence_break("C17.elbo_discrete", f"{name}: exp(elbo.estimate) at the scripted draw z={ch} is {got:.6g}, the model's elboDraw "
                                                              f"gives {float(m['ratio']):.6g}", case)
            if shared:
                continue                      # what the objective means when the family proposes at an observed address is not part of C17
            if not np.isclose(got, float(want), **tol):
                ctx.property_failure(None, f"{name}: the objective at the draw z={ch} is log {got:.6g}, not log p(x,z) - log q(z) = log {float(want):.6g} "
                                           f"(p(x,z)={joint}, q(z)={pr})", dict(case, z=ch))
            if not np.isclose(math.exp(logq), float(pr), **tol):
                ctx.correspondence_break("C17.elbo_discrete", f"{name}: family.assess at z={ch} gives q(z)={math.exp(logq):.6g}, the model {float(pr):.6g}", case)
            if "posterior" in flags and not np.isclose(val, math.log(float(flags["posterior"])), rtol=1e-4, atol=1e-5):
                ctx.property_failure(None, f"{name}: the family is the exact posterior but the draw z={ch} gives {val:.6f}, not log p(x) = {math.log(float(flags['posterior'])):.6f}",
                                     dict(case, z=ch))
        case["per_draw"] = [(str(ch), g, w) for ch, g, w, _ in per_z]
        if shared:
            ctx.case(sample=case, nontrivial_key=("discrete", name))
            continue
        if Fr(fields["mean"][0]) != evidence_ref:
            ctx.correspondence_break("C17.elbo_discrete", f"{name}: the model's E_q[p/q] = {fields['mean'][0]} is not the evidence {evidence_ref}", case)
        case.update({"evidence": str(evidence_ref), "sum_q_ratio": total})
        if not np.isclose(total, float(evidence_ref), **tol):
            ctx.property_failure(None, f"{name}: sum_z q(z) * exp(objective(z)) = {total:.6g} over all outcomes of the family, not the evidence p(x) = {float(evidence_ref):.6g}", case)
        # the library's own samplers: every seeded draw lands on one of those ratios; the mean is E_q[log p - log q] <= log p(x)
        elbo = elbo_factory(target, fam_lib, constraint)
        keys = jr.split(jr.key(ctx.seed + 11), n_seeded)
        vals = np.asarray(jax.jit(jax.vmap(lambda k: G.seed(elbo.estimate)(k, *theta)))(keys), dtype=np.float64)
        support = np.array([math.log(float(w)) for _, _, w, qz in per_z if qz > 0 and w > 0])
        off = np.abs(vals[:, None] - support[None, :]).min(axis=1)
        if off.max() > 1e-4 * (1 + np.abs(vals).max()):
            i = int(off.argmax())
            ctx.property_failure(None, f"{name}: seeded draw #{i} of elbo.estimate gives {vals[i]:.6f}, which is not log p(x,z) - log q(z) for any outcome z of the family "
                                       f"({sorted(support.tolist())})", dict(case, key_index=i))
        ok, mean, se = z_ok(vals, elbo_ref)
        case.update({"mean_elbo": mean, "closed_form": elbo_ref, "log_evidence": math.log(float(evidence_ref))})
        if not ok:
            ctx.property_failure(None, f"{name}: mean ELBO over {n_seeded} seeded draws {mean:.4f} +- {se:.4f} != sum_z q(z)(log p(x,z) - log q(z)) = {elbo_ref:.4f}", case)
        if mean - 5.5 * se - 2e-3 > math.log(float(evidence_ref)):
            ctx.property_failure(None, f"{name}: mean ELBO {mean:.4f} exceeds log p(x) = {math.log(float(evidence_ref)):.4f}", case)
        ctx.case(sample=case, nontrivial_key=("discrete", name))
        ctx.count("elbo-discrete")


def shared_location(G, ctx, n):
    """a hand-written reparameterised family whose coordinates SHARE one location and have their own scales
    (normal_reparam.vmap(in_axes=(None, 0))) against a target that couples the coordinates: closed-form ELBO and gradient"""
    import jax
    import jax.numpy as jnp
    import jax.random as jr
    from genjax.adev import normal_reparam
    from genjax.inference.vi import elbo_factory
    normal = G.normal

    @G.gen
    def target():
        z = normal.vmap(in_axes=(0, None))(jnp.zeros(3), 1.0) @ "z"
        y = normal(jnp.sum(z), 0.5) @ "y"
        return y

    y = 1.2

    def closed(p):        # q = N(mu*1, diag(s^2)); S = sum z ~ N(3 mu, sum s^2)
        mu, s = p[0], jnp.exp(p[1:])
        e_prior = jnp.sum(-0.5 * jnp.log(2 * jnp.pi) - 0.5 * (mu ** 2 + s ** 2))
        e_lik = -0.5 * jnp.log(2 * jnp.pi * 0.25) - ((y - 3 * mu) ** 2 + jnp.sum(s ** 2)) / (2 * 0.25)
        entropy = jnp.sum(0.5 * jnp.log(2 * jnp.pi * jnp.e * s ** 2))
        return e_prior + e_lik + entropy

    for axes_name, in_axes in (("loc shared (None, 0)", (None, 0)), ("both mapped (0, 0)", (0, 0))):
        @G.gen
        def family(constraint, p, in_axes=in_axes):
            loc = p[0] if in_axes[0] is None else jnp.full(3, p[0])
            normal_reparam.vmap(in_axes=in_axes)(loc, jnp.exp(p[1:])) @ "z"

        elbo = elbo_factory(target, family, {"y": jnp.float32(y)})
        params = jnp.array([0.2, -0.3, 0.1, -0.6], dtype=jnp.float32)
        keys = jr.split(jr.key(ctx.seed + 7), n)
        case = {"kind": "elbo-shared-location", "family": axes_name}
        try:
            vals = np.asarray(jax.jit(jax.vmap(lambda k: G.seed(elbo.estimate)(k, params)))(keys))
            grads = np.asarray(jax.jit(jax.vmap(lambda k: G.seed(elbo.grad_estimate)(k, params)))(keys))
        except Exception as ex:
            impl.reset_handlers()
            ctx.property_failure(None, f"reparameterised family ({axes_name}) raised {type(ex).__name__}: {str(ex)[:150]}", case)
            continue
        ok, mean, se = z_ok(vals, float(closed(params)))
        case.update({"mean_elbo": mean, "closed_form": float(closed(params))})
        if not ok:
            ctx.property_failure(None, f"reparameterised family ({axes_name}): mean ELBO {mean:.4f} +- {se:.4f} != E_q[log p - log q] = {float(closed(params)):.4f} "
                                 "(every coordinate needs its own noise)", case)
        want_g = np.asarray(jax.grad(closed)(params))
        for j in range(4):
            ok, mean, se = z_ok(grads[:, j], float(want_g[j]))
            if not ok:
                ctx.property_failure(None, f"reparameterised family ({axes_name}): mean grad_estimate[{j}] {mean:.4f} +- {se:.4f} != {float(want_g[j]):.4f}", case)
        ctx.case(sample=case, nontrivial_key=("shared-loc", axes_name))
        ctx.count("elbo-shared-location")


def shard(ctx, which, n):
    G = impl.load()
    {"1d": one_dim, "2d": two_dim_fullcov, "sr": structured_reinforce, "sl": shared_location}[which](G, ctx, n)


def run(ctx, audit):
    n = 20000 if ctx.thorough else 4000
    common.run_sharded(ctx, "props.c17", "shard", [("1d", n), ("2d", n), ("sr", 4 * n), ("sl", n)])
    optimiser(impl.load(), ctx)
    discrete_elbo(impl.load(), ctx, 8000 if ctx.thorough else 2000)
    return {"rule": RULE}


def replay(ctx, payload):
    G = impl.load()
    k = (payload.get("case") or {}).get("kind", "")
    n = 4000
    if k == "elbo-1d":
        one_dim(G, ctx, n)
    elif k == "elbo-2d-fullcov":
        two_dim_fullcov(G, ctx, n)
    elif k == "structured-reinforce":
        structured_reinforce(G, ctx, 4 * n)
    elif k == "elbo-discrete":
        c2 = common.Ctx(ctx.prop_id, ctx.tier, int(payload.get("seed", 0)))     # the family parameters are drawn from the run's rng
        ctx.rng, ctx.seed = c2.rng, c2.seed
        discrete_elbo(G, ctx)
    else:
        optimiser(G, ctx)
    for i in ctx.issues:
        print("REPRODUCED:", i["what"])
    if not ctx.issues:
        print("not reproduced")
    return 1 if ctx.issues else 0
