"""C17 — the ELBO objective is unbiased, tight at the posterior, and ascended by VI."""
import math
from fractions import Fraction as Fr

import numpy as np

import common
import impl
import sexp

RULE = ("conjugate Gaussian targets (1-d, 2-d with correlated posterior, 2-latent chain) with known posterior and evidence; mean-field and "
        "full-covariance (non-diagonal Cholesky) families, reparameterised and score-function, plus a structured two-site score-function family: "
        "ELBO per seeded draw at the exact posterior = log p(x); mean ELBO / mean grad_estimate over seeded draws off the posterior vs closed "
        "forms (CLT band z<5.5) and <= log p(x); optimize_vi / elbo_vi: every iterate of param_history vs the exact recurrence "
        "params + lr*grad (Lean optimiser model, rational gradients); non-trivial = every (target, family, parameter) combination")


def z_ok(arr, want, extra=0.0):
    arr = np.asarray(arr, dtype=np.float64)
    se = arr.std(ddof=1) / math.sqrt(len(arr)) if arr.std() > 0 else 0.0
    return abs(arr.mean() - want) <= 5.5 * se + 2e-3 * (1 + abs(want)) + extra, float(arr.mean()), float(se)


def gaussian_expect(f, dim):
    """E[f(e)] for e ~ N(0, I) when f is (at most) quadratic: f(0) + trace(Hessian)/2 (exact)"""
    import jax
    import jax.numpy as jnp
    z = jnp.zeros(dim)
    return f(z) + 0.5 * jnp.trace(jax.hessian(f)(z))


def one_dim(G, ctx, n):
    import jax
    import jax.numpy as jnp
    import jax.random as jr
    from jax.scipy.stats import norm
    from genjax.inference.vi import elbo_factory, mean_field_normal_family
    normal = G.normal

    @G.gen
    def target():
        z = normal.repeat(1)(0.0, 1.0) @ "x"      # latent named "x" (the families sample address "x")
        y = normal(z[0], 0.5) @ "y"
        return y
    y = 0.8
    s2 = 1.0 / (1.0 + 1.0 / 0.25)
    m = s2 * y / 0.25
    logZ = float(norm.logpdf(y, 0.0, math.sqrt(1.25)))
    for est in ("reparam", "reinforce"):
        fam = mean_field_normal_family(1, est)
        elbo = elbo_factory(target, fam, {"y": jnp.float32(y)})
        post = jnp.array([m, 0.5 * math.log(s2)], dtype=jnp.float32)
        keys = jr.split(jr.key(ctx.seed + 1), 64)
        vals = np.asarray(jax.vmap(lambda k: G.seed(elbo.estimate)(k, post))(keys))
        case = {"kind": "elbo-1d", "estimator": est}
        if not np.allclose(vals, logZ, atol=2e-3):
            ctx.property_failure(None, f"ELBO at the exact posterior is not log p(x) for every draw ({est}): range [{vals.min():.4f}, {vals.max():.4f}] vs {logZ:.4f}", case)
        # off the posterior: unbiased for the closed-form ELBO, below log p(x); gradient unbiased
        params = jnp.array([0.1, -0.2], dtype=jnp.float32)

        def closed(p):
            mu, sd = p[0], jnp.exp(p[1])
            f = lambda e: norm.logpdf(mu + sd * e[0], 0.0, 1.0) + norm.logpdf(y, mu + sd * e[0], 0.5) - norm.logpdf(mu + sd * e[0], mu, sd)
            return gaussian_expect(f, 1)
        keys = jr.split(jr.key(ctx.seed + 2), n)
        vals = np.asarray(jax.jit(jax.vmap(lambda k: G.seed(elbo.estimate)(k, params)))(keys))
        ok, mean, se = z_ok(vals, float(closed(params)))
        case.update({"mean_elbo": mean, "closed_form": float(closed(params)), "log_evidence": logZ})
        if not ok:
            ctx.property_failure(None, f"mean ELBO {mean:.4f} +- {se:.4f} != E_q[log p(x,z) - log q(z)] = {float(closed(params)):.4f} ({est})", case)
        if mean - 5.5 * se > logZ:
            ctx.property_failure(None, f"mean ELBO {mean:.4f} exceeds log p(x) = {logZ:.4f}", case)
        grads = np.asarray(jax.jit(jax.vmap(lambda k: G.seed(elbo.grad_estimate)(k, params)))(keys))
        want_g = np.asarray(jax.grad(closed)(params))
        for j in range(2):
            ok, mean, se = z_ok(grads[:, j], float(want_g[j]))
            if not ok:
                ctx.property_failure(None, f"mean grad_estimate[{j}] {mean:.4f} +- {se:.4f} != gradient of the ELBO {float(want_g[j]):.4f} ({est})", case)
        ctx.case(sample=case, nontrivial_key=("1d", est))
        ctx.count("elbo-1d:" + est)


def two_dim_fullcov(G, ctx, n):
    import jax
    import jax.numpy as jnp
    import jax.random as jr
    from jax.scipy.stats import multivariate_normal as mvn, norm
    from genjax.inference.vi import elbo_factory, full_covariance_normal_family
    normal = G.normal
    Hm = jnp.array([[1.0, 0.5], [0.0, 1.0], [1.0, -1.0]])

    @G.gen
    def target():
        z = G.multivariate_normal(jnp.zeros(2), jnp.eye(2)) @ "x"
        y = normal.vmap(in_axes=(0, None))(Hm @ z, 0.7) @ "y"
        return y
    y = jnp.array([0.5, -0.3, 1.2])
    prec = jnp.eye(2) + Hm.T @ Hm / 0.49
    S = jnp.linalg.inv(prec)
    m = S @ (Hm.T @ y / 0.49)
    logZ = float(mvn.logpdf(y, jnp.zeros(3), Hm @ Hm.T + 0.49 * jnp.eye(3)))
    for est in ("reparam", "reinforce"):
        fam = full_covariance_normal_family(2, est)
        elbo = elbo_factory(target, fam, {"y": y})
        post = {"mean": m, "chol_cov": jnp.linalg.cholesky(S)}
        keys = jr.split(jr.key(ctx.seed + 3), 32)
        vals = np.asarray(jax.vmap(lambda k: G.seed(elbo.estimate)(k, post))(keys))
        case = {"kind": "elbo-2d-fullcov", "estimator": est}
        if not np.allclose(vals, logZ, atol=5e-3):
            ctx.property_failure(None, f"full-covariance ELBO at the exact posterior is not log p(x) for every draw ({est}): [{vals.min():.4f},{vals.max():.4f}] vs {logZ:.4f}", case)
        L = jnp.array([[1.2, 0.0], [-0.9, 0.4]])        # strongly non-diagonal Cholesky factor, off the posterior
        params = {"mean": jnp.array([0.2, -0.1]), "chol_cov": L}

        def closed(p):
            mu, Lc = p["mean"], p["chol_cov"]
            cov = Lc @ Lc.T

            def f(e):
                z = mu + Lc @ e
                return mvn.logpdf(z, jnp.zeros(2), jnp.eye(2)) + jnp.sum(norm.logpdf(y, Hm @ z, 0.7)) - mvn.logpdf(z, mu, cov)
            return gaussian_expect(f, 2)
        keys = jr.split(jr.key(ctx.seed + 4), 4 * n)
        vals = np.asarray(jax.jit(jax.vmap(lambda k: G.seed(elbo.estimate)(k, params)))(keys))
        ok, mean, se = z_ok(vals, float(closed(params)))
        case.update({"mean_elbo": mean, "closed_form": float(closed(params)), "log_evidence": logZ})
        if not ok:
            ctx.property_failure(None, f"full-covariance family ({est}): mean ELBO {mean:.4f} +- {se:.4f} != E_q[log p - log q] = {float(closed(params)):.4f}", case)
        if est == "reparam":
            grads = jax.jit(jax.vmap(lambda k: G.seed(elbo.grad_estimate)(k, params)))(keys)
            want = jax.grad(closed)(params)
            for j in range(2):
                ok, mean, se = z_ok(np.asarray(grads["mean"])[:, j], float(want["mean"][j]))
                if not ok:
                    ctx.property_failure(None, f"full-covariance reparam: mean grad wrt mean[{j}] {mean:.4f} +- {se:.4f} != {float(want['mean'][j]):.4f}", case)
        ctx.case(sample=case, nontrivial_key=("2d", est))
        ctx.count("elbo-2d:" + est)


def structured_reinforce(G, ctx, n):
    """two score-function sites, the second one's parameters depend on theta AND on the first draw"""
    import jax
    import jax.numpy as jnp
    import jax.random as jr
    from jax.scipy.stats import norm
    from genjax.adev import normal_reinforce
    from genjax.inference.vi import elbo_factory
    normal = G.normal

    @G.gen
    def target():
        z1 = normal(0.0, 1.0) @ "z1"
        z2 = normal(z1, 1.0) @ "z2"
        y = normal(z2, 0.5) @ "y"
        return y

    @G.gen
    def family(constraint, p):
        z1 = normal_reinforce(p[0], jnp.exp(p[1])) @ "z1"
        z2 = normal_reinforce(p[2] + p[3] * z1, jnp.exp(p[4])) @ "z2"
        return z2
    y = 0.9
    elbo = elbo_factory(target, family, {"y": jnp.float32(y)})
    params = jnp.array([0.2, -0.3, 0.1, 0.4, -0.2], dtype=jnp.float32)

    def closed(p):
        def f(e):
            z1 = p[0] + jnp.exp(p[1]) * e[0]
            z2 = p[2] + p[3] * z1 + jnp.exp(p[4]) * e[1]
            lp = norm.logpdf(z1, 0, 1) + norm.logpdf(z2, z1, 1) + norm.logpdf(y, z2, 0.5)
            lq = norm.logpdf(z1, p[0], jnp.exp(p[1])) + norm.logpdf(z2, p[2] + p[3] * z1, jnp.exp(p[4]))
            return lp - lq
        return gaussian_expect(f, 2)
    keys = jr.split(jr.key(ctx.seed + 5), n)
    grads = np.asarray(jax.jit(jax.vmap(lambda k: G.seed(elbo.grad_estimate)(k, params)))(keys))
    want = np.asarray(jax.grad(closed)(params))
    case = {"kind": "structured-reinforce", "mean_grad": grads.mean(axis=0).tolist(), "closed_form_grad": want.tolist()}
    for j in range(5):
        ok, mean, se = z_ok(grads[:, j], float(want[j]))
        if not ok:
            ctx.property_failure(None, f"structured score-function family: mean grad_estimate[{j}] {mean:.4f} +- {se:.4f} != {float(want[j]):.4f}", case)
    ctx.case(sample=case, nontrivial_key="structured-reinforce")
    ctx.count("structured-reinforce")


def optimiser(G, ctx):
    import jax
    import jax.numpy as jnp
    from genjax.adev import expectation
    from genjax.inference.vi import optimize_vi
    for (c, lr, nit, p0) in ((Fr(3, 2), Fr(1, 4), 6, Fr(-1, 2)), (Fr(-1), Fr(1, 8), 9, Fr(2)), (Fr(1, 2), Fr(1, 2), 4, Fr(0))):
        obj = expectation(lambda p: -0.5 * jnp.sum((p - float(c)) ** 2))      # deterministic objective: grad = c - p
        res = optimize_vi(obj, jnp.array([float(p0)], dtype=jnp.float32), learning_rate=float(lr), n_iterations=nit)
        hist = np.asarray(res.param_history).reshape(-1)
        r = sexp.loads(common.driver_run([sexp.dumps(["vi-optimize", c, lr, nit, p0])])[0])
        want = np.array([float(Fr(t)) for t in r[1]])
        case = {"kind": "optimiser", "c": str(c), "lr": str(lr), "n": nit, "history": hist.tolist(), "recurrence": want.tolist()}
        if len(hist) != nit or not np.allclose(hist, want, rtol=1e-5, atol=1e-6):
            ctx.property_failure(None, f"optimize_vi history {hist.tolist()} is not params + lr*grad at every iteration {want.tolist()}", case)
        if abs(float(np.asarray(res.final_params).reshape(-1)[0]) - want[-1]) > 1e-5 or int(res.n_iterations.value) != nit:
            ctx.property_failure(None, "optimize_vi final_params / n_iterations inconsistent with the history", case)
        ctx.case(sample=case, nontrivial_key=("opt", str(c), str(lr), nit))
        ctx.count("optimiser")


def shard(ctx, which, n):
    G = impl.load()
    {"1d": one_dim, "2d": two_dim_fullcov, "sr": structured_reinforce}[which](G, ctx, n)


def run(ctx, audit):
    n = 20000 if ctx.thorough else 4000
    common.run_sharded(ctx, "props.c17", "shard", [("1d", n), ("2d", n), ("sr", 4 * n)])
    optimiser(impl.load(), ctx)
    return {"rule": RULE}


def replay(ctx, payload):
    G = impl.load()
    k = (payload.get("case") or {}).get("kind", "")
    n = 4000
    if k == "elbo-1d":
        one_dim(G, ctx, n)
    elif k == "elbo-2d-fullcov":
        two_dim_fullcov(G, ctx, n)
    elif k == "structured-reinforce":
        structured_reinforce(G, ctx, 4 * n)
    else:
        optimiser(G, ctx)
    for i in ctx.issues:
        print("REPRODUCED:", i["what"])
    if not ctx.issues:
        print("not reproduced")
    return 1 if ctx.issues else 0
