"""C12 — resampling copies particles faithfully, preserves the estimate, and is unbiased."""
import math
from fractions import Fraction as Fr

import numpy as np

import common
import impl
import sexp

RULE = ("rational weight vectors (uniform, degenerate, partly zero = -inf log weight, near-uniform, random), N in 1..9, both methods, "
        "fresh PRNG key per case; systematic: offset u recovered from the key and the ancestor indices compared with the Lean model "
        "(cases within 1e-5 of a tie are redrawn); collections with stale diagnostic weights and resample->resample histories; "
        "non-trivial = at least two distinct positive weights")


def weight_vectors(rng, n_cases):
    out = []
    for N in range(1, 10):
        out.append([Fr(1)] * N)                                 # uniform
        if N > 1:
            out.append([Fr(1)] + [Fr(0)] * (N - 1))             # degenerate
            out.append([Fr(0)] * (N - 1) + [Fr(3)])
            out.append([Fr(1000 + i) for i in range(N)])        # near uniform
            out.append([Fr(i % 3) for i in range(1, N + 1)])    # partly zero
    while len(out) < n_cases:
        N = rng.randint(2, 9)
        w = [Fr(rng.choice([0, 0, 1, 1, 2, 3, 5, 8, 13, 40])) for _ in range(N)]
        if sum(w) == 0:
            w[rng.randrange(N)] = Fr(1)
        out.append(w)
    return out


_BASE = {}


def make_particles(G, N, w, key, diag=None, acc=0.0, offset=0.0):
    """a ParticleCollection over N vectorised traces of a small multi-leaf model, with the given weights"""
    import jax.numpy as jnp
    from genjax.inference.smc import ParticleCollection, init

    normal = G.normal

    @G.gen
    def model():
        x = normal(0.0, 1.0) @ "x"
        v = G.multivariate_normal(jnp.zeros(2) + x, jnp.eye(2)) @ "v"
        y = normal(x, 1.0) @ "y"
        return x + y

    ck = (N,)
    if ck not in _BASE:
        _BASE[ck] = G.seed(init)(key, model, (), G.const(N), {"y": jnp.float32(0.5)})
    p0 = _BASE[ck]
    lw = jnp.asarray([math.log(float(x)) + offset if x > 0 else -np.inf for x in w], dtype=jnp.float32)
    if diag is None:
        dg = lw - jnp.log(jnp.sum(jnp.exp(lw)))
    else:
        dg = jnp.asarray(diag, dtype=jnp.float32)
    return ParticleCollection(traces=p0.traces, log_weights=lw, diagnostic_weights=dg,
                              n_samples=G.const(N), log_marginal_estimate=jnp.float32(acc))


def source_indices(G, before, after):
    """for each output lane the input lane it copies; None if some leaf is not a copy of that lane"""
    import jax
    xin = np.asarray(before.traces.get_choices()["x"])
    xout = np.asarray(after.traces.get_choices()["x"])
    idx = []
    for j in range(len(xout)):
        m = np.where(xin == xout[j])[0]
        idx.append(int(m[0]) if len(m) else -1)
    lin = jax.tree_util.tree_leaves(before.traces)
    lout = jax.tree_util.tree_leaves(after.traces)
    consistent = len(lin) == len(lout)
    if consistent:
        for a, b in zip(lin, lout):
            a, b = np.asarray(a), np.asarray(b)
            if a.shape != b.shape:
                consistent = False
                break
            for j, i in enumerate(idx):
                if i < 0 or not np.array_equal(a[i], b[j], equal_nan=True):
                    consistent = False
    return idx, consistent


def lml(p):
    return float(p.log_marginal_likelihood())


def check_one(G, ctx, w, key_int, method, diag=None, acc=0.0, label="", offset=0.0):
    import jax.numpy as jnp
    import jax.random as jr
    from genjax.inference.smc import resample
    N = len(w)
    key = jr.key(key_int)
    p = make_particles(G, N, w, jr.key(key_int + 1), diag=diag, acc=acc, offset=offset)
    if offset:
        # unnormalised log weights of large common magnitude: float32 quantises them, so the weights the particles REALLY carry are
        # read back from the collection (exact rationals of the stored floats)
        l64 = np.asarray(p.log_weights, dtype=np.float64)
        w = [Fr(float(np.exp(v - l64.max()))) if np.isfinite(v) else Fr(0) for v in l64]
    case = {"kind": "resample", "weights": [str(x) for x in w], "N": N, "method": method, "key": key_int,
            "diag": None if diag is None else [float(d) for d in diag], "acc": acc, "label": label, "log_weight_offset": offset}
    try:
        q = G.seed(lambda pp: resample(pp, method=method))(key, p)
    except Exception as ex:
        ctx.property_failure(None, f"resample raised {type(ex).__name__}: {str(ex)[:150]}", case)
        return
    idx, consistent = source_indices(G, p, q)
    case["impl_indices"] = idx
    tot = sum(w)
    if not consistent or any(i < 0 for i in idx):
        ctx.property_failure(None, "a resampled particle is not an exact copy of one input particle (trace fields come from different source indices)", case)
        return
    if len(idx) != N or int(q.n_samples.value) != N:
        ctx.property_failure(None, "resample changed the number of particles", case)
    if not np.all(np.asarray(q.log_weights) == 0.0):
        ctx.property_failure(None, "log weights are not reset to 0", case)
    a, b = lml(p), lml(q)
    if not (abs(a - b) <= 1e-4 * (1 + abs(a))):
        ctx.property_failure(None, f"log_marginal_likelihood changed by resampling: {a} -> {b}", case)
    want_diag = np.array([math.log(float(x / tot)) if x > 0 else -np.inf for x in w])
    got_diag = np.asarray(q.diagnostic_weights, dtype=np.float64)
    # float32 log weights of magnitude |offset| are quantised to spacing(|offset|): lw - logsumexp(lw) inherits that error
    diag_atol = 1e-5 if not offset else float(np.exp(4 * np.spacing(np.float32(abs(offset)))) - 1.0)
    if not np.allclose(np.exp(got_diag), np.exp(want_diag), atol=diag_atol):
        ctx.property_failure(None, "diagnostic weights are not the pre-resampling normalised weights", case)
    if any(w[i] == 0 for i in idx):
        ctx.property_failure(None, "a particle of weight zero was copied", case)
    counts = [idx.count(i) for i in range(N)]
    if method == "systematic":
        for i in range(N):
            d = N * w[i] / tot
            if not (math.floor(d) <= counts[i] <= math.ceil(d)):
                ctx.property_failure(None, f"systematic resampling gave particle {i} {counts[i]} copies, outside [floor, ceil] of N*w = {float(d)}", case)
                break
        # correspondence with the Lean model on the recovered offset
        u = Fr(float(G.seed(G.uniform.sample)(key, 0.0, 1.0)))
        cum, s = [], Fr(0)
        for x in w:
            s += x / tot
            cum.append(s)
        tie = any(abs(float((j + u) / N - c)) < 1e-5 for j in range(N) for c in cum)
        if tie:
            ctx.count("tie-skipped")
        else:
            r = sexp.loads(common.driver_run([sexp.dumps(["systematic", list(w), N, u])])[0])
            midx = [int(t) for t in r[1]]
            if midx != idx:
                case["model_indices"] = midx
                case["u"] = str(u)
                ctx.correspondence_break("Resample.systematic vs systematic_resample", f"model {midx} impl {idx} (u={float(u)})", case)
    # estimate bookkeeping vs the model (linear domain)
    r = sexp.loads(common.driver_run([sexp.dumps(["resample", list(w), 1, idx])])[0])
    if Fr(r[1]) != Fr(r[2]):
        ctx.correspondence_break("Coll.resample lml invariance", "model itself not invariant?", case)
    ctx.case(sample=case if ctx.coverage["evaluations"] % 23 == 0 else None,
             nontrivial_key=(tuple(w), method, key_int) if len({x for x in w if x > 0}) >= 2 else None)
    ctx.count(f"{method}:N={N}")
    return q


def expectation_check(G, ctx, w, method, M):
    """E[copies_i] = N w_i over M keys (calibrated z-test, alpha ~ 1e-6 per vector)"""
    import jax
    import jax.numpy as jnp
    import jax.random as jr
    from genjax.inference.smc import resample
    N = len(w)
    p = make_particles(G, N, w, jr.key(123))
    xin = np.asarray(p.traces.get_choices()["x"])
    keys = jr.split(jr.key(ctx.seed * 31 + 5), M)
    qs = jax.jit(jax.vmap(lambda k: G.seed(lambda pp: resample(pp, method=method))(k, p).traces.get_choices()["x"]))(keys)
    qs = np.asarray(qs)
    tot = float(sum(w))
    case = {"kind": "expected-copies", "weights": [str(x) for x in w], "method": method, "keys": M}
    for i in range(N):
        cnt = (qs == xin[i]).sum(axis=1)
        mean = cnt.mean()
        want = N * float(w[i]) / tot
        sd = max(cnt.std(ddof=1), 1e-9) / math.sqrt(M)
        if cnt.std() == 0:
            bad = abs(mean - want) > 1e-9 and not (abs(mean - want) < 1e-6)
        else:
            bad = abs(mean - want) > 5.5 * sd
        if bad:
            case["particle"] = i
            case["mean_copies"] = float(mean)
            case["expected"] = want
            ctx.property_failure(None, f"expected copies of particle {i} under {method}: mean {mean:.4f} over {M} keys, N*w = {want:.4f}", case)
            break
    ctx.case(sample=case, nontrivial_key=("exp", tuple(w), method))
    ctx.count("expectation:" + method)


def all_impossible(G, ctx):
    """every particle has weight zero (log weight -inf): the evidence estimate is 0 before and after resampling - a dead run must
    never be revived with a finite log_marginal_likelihood"""
    import jax.random as jr
    from genjax.inference.smc import resample
    for N in (2, 4):
        for method in ("systematic", "categorical"):
            case = {"kind": "all-impossible", "N": N, "method": method}
            try:
                p = make_particles(G, N, [Fr(0)] * N, jr.key(5))
                q = G.seed(lambda pp: resample(pp, method=method))(jr.key(6), p)
                a, b = lml(p), lml(q)
                if not (a == -np.inf) or np.isfinite(b):
                    ctx.property_failure(None, f"all particles impossible: log_marginal_likelihood is {a} before and {b} after resample ({method}); a dead collection must keep evidence 0", {**case, "before": a, "after": b})
            except Exception as ex:
                ctx.property_failure(None, f"resample of an all-impossible collection raised {type(ex).__name__}: {str(ex)[:150]}", case)
            ctx.case(nontrivial_key=("all-impossible", N, method))
            ctx.count("all-impossible")


def resample_after_extend(G, ctx):
    """particles that carry their OWN arguments (after extend): the resampled particle must be a copy of its ancestor in every
    field - choices, score, return value AND stored arguments - i.e. a coherent trace (Lean: C12_resample_trace_coherent; the
    counterexample C12_resample_args_needed is what happens when the arguments are not gathered)"""
    import jax
    import jax.numpy as jnp
    import jax.random as jr
    from genjax.inference.smc import extend, init, resample
    from props import c10
    model, prop0, prop_t, obs, getx, qmean = c10.setup(G, False)
    for method in ("systematic", "categorical"):
        for N, key_int in ((4, 1), (6, 2)):
            case = {"kind": "resample-after-extend", "method": method, "N": N, "key": key_int}
            try:
                k = jr.split(jr.key(ctx.seed * 50 + key_int), 3)
                p0 = G.seed(lambda: init(model, (jnp.float32(0.0),), G.const(N), obs(0.6)))(k[0])
                p1 = G.seed(lambda p: extend(p, model, p0.traces.get_retval(), obs(-0.4)))(k[1], p0)
                p2 = G.seed(lambda p: resample(p, method=method))(k[2], p1)
                ok = c10.particles_coherent(G, ctx, model, p2.traces, N, case, f"resample({method}) after extend")
                # every leaf of particle j (arguments included) comes from ONE ancestor
                leaves1 = [np.asarray(l) for l in jax.tree_util.tree_leaves((p1.traces.get_choices(), p1.traces.get_args(), p1.traces.get_retval()))]
                leaves2 = [np.asarray(l) for l in jax.tree_util.tree_leaves((p2.traces.get_choices(), p2.traces.get_args(), p2.traces.get_retval()))]
                for j in range(N):
                    cands = [i for i in range(N) if all(np.allclose(l2[j], l1[i]) for l1, l2 in zip(leaves1, leaves2) if np.ndim(l1) >= 1 and l1.shape[0] == N)]
                    if not cands and ok:
                        ctx.property_failure(None, f"resample({method}) after extend: particle {j} is not a copy of any single input particle (some field was not gathered)", {**case, "particle": j})
                        break
            except Exception as ex:
                impl.reset_handlers()
                ctx.property_failure(None, f"resample after extend raised {type(ex).__name__}: {str(ex)[:160]}", case)
            ctx.case(sample=case if N == 4 else None, nontrivial_key=("resample-after-extend", method, N))
            ctx.count("resample-after-extend:" + method)


def large_counts(G, ctx):
    """particle counts far beyond the exhaustive model comparison (N <= 9): for EVERY N in a contiguous range plus powers of two and
    round numbers, systematic and categorical index selection returns exactly N ancestors; systematic obeys the floor/ceil bound of
    `C12_systematic_counts` and is non-decreasing (float-step ranges, index dtypes and off-by-one pointer counts only show at
    particular N)."""
    import jax.numpy as jnp
    import jax.random as jr
    smc = __import__("genjax.inference.smc", fromlist=["x"])
    Ns = list(range(10, 131 if not ctx.thorough else 261)) + [196, 197, 206, 214, 256, 300, 500, 512, 1000, 1024]
    rng = np.random.default_rng(ctx.seed + 5)
    for N in Ns:
        w = rng.choice([1.0, 1.0, 2.0, 3.0, 0.5], size=N)
        w = w / w.sum()
        lw = jnp.asarray(np.log(w), dtype=jnp.float32)
        for method, fn in (("systematic", smc.systematic_resample),):
            case = {"kind": "large-count", "N": N, "method": method}
            try:
                idx = np.asarray(G.seed(lambda l, fn=fn, N=N: fn(l, N))(jr.key(ctx.seed * 7 + N), lw))
            except Exception as ex:
                impl.reset_handlers()
                ctx.property_failure(None, f"{method} index selection with N = {N} raised {type(ex).__name__}: {str(ex)[:140]}", case)
                continue
            if idx.shape != (N,):
                ctx.property_failure(None, f"{method} index selection with N = {N} returns {idx.shape[0] if idx.ndim else 'a scalar'} ancestors instead of {N}", {**case, "returned": list(idx.shape)})
                continue
            counts = np.bincount(idx, minlength=N)
            tol = 1e-4 + 2e-7 * N * N        # float32 cumulative sums: boundaries move by up to ~N eps, i.e. ~N^2 eps in units of copies
            lo, hi = np.floor(N * w - tol), np.ceil(N * w + tol)
            if idx.min() < 0 or idx.max() >= N or np.any(counts < lo) or np.any(counts > hi) or np.any(np.diff(idx) < 0):
                bad = int(np.argmax((counts < lo) | (counts > hi)))
                ctx.property_failure(None, f"systematic resampling with N = {N}: particle {bad} with N*w = {N * w[bad]:.3f} got {int(counts[bad])} copies (floor/ceil bound), or the ancestors are not ordered", {**case, "particle": bad})
            ctx.case(nontrivial_key=("large-count", N, method))
            ctx.count("large-count")
    # the public resample on a collection: N + 1 traces for N weights would go unnoticed by weight-only checks
    for N in (49, 98, 100):
        for method in ("systematic", "categorical"):
            case = {"kind": "large-count-collection", "N": N, "method": method}
            try:
                from genjax.inference.smc import resample
                p = make_particles(G, N, [Fr(1 + (i % 3)) for i in range(N)], jr.key(5))
                q = G.seed(lambda pp, method=method: resample(pp, method=method))(jr.key(6), p)
                import jax
                sizes = {int(np.shape(l)[0]) for l in jax.tree_util.tree_leaves((q.traces.get_choices(), q.log_weights)) if np.ndim(l) >= 1}
                if sizes != {N}:
                    ctx.property_failure(None, f"resample({method}) of {N} particles returns leaves with leading sizes {sorted(sizes)}", {**case, "sizes": sorted(sizes)})
            except Exception as ex:
                impl.reset_handlers()
                ctx.property_failure(None, f"resample({method}) of {N} particles raised {type(ex).__name__}: {str(ex)[:140]}", case)
            ctx.case(nontrivial_key=("large-count-collection", N, method))
            ctx.count("large-count-collection")


def run(ctx, audit):
    G = impl.load()
    resample_after_extend(G, ctx)
    all_impossible(G, ctx)
    large_counts(G, ctx)
    # log weights of large common magnitude (long observation sequences): relative tolerances on RAW log weights must not matter
    kk = ctx.seed * 1000 + 500
    for off in (-1.0e5, -2.0e6):
        for w in ([Fr(1), Fr(2), Fr(4), Fr(1)], [Fr(1), Fr(8), Fr(1), Fr(2), Fr(4), Fr(16)], [Fr(3), Fr(1), Fr(1)]):
            for method in ("systematic", "categorical"):
                kk += 1
                check_one(G, ctx, w, kk, method, label="large-magnitude", offset=off)
    rng = ctx.rng
    vecs = weight_vectors(rng, 90 if ctx.thorough else 48)
    k = ctx.seed * 1000
    for w in vecs:
        for method in ("systematic", "categorical"):
            for rep in range(3 if ctx.thorough else 1):
                k += 1
                q = check_one(G, ctx, w, k, method)
    # stale diagnostics: uniform weights with arbitrary diagnostic weights (state after resample -> rejuvenate)
    for N in (3, 5, 8):
        for rep in range(3):
            k += 1
            d = np.log(np.array([rng.choice([1, 2, 5, 9]) for _ in range(N)], dtype=float))
            d = d - np.log(np.exp(d).sum())
            for method in ("systematic", "categorical"):
                check_one(G, ctx, [Fr(1)] * N, k, method, diag=list(d), acc=-1.25, label="stale-diagnostics")
    # history: resample twice
    import jax.random as jr
    from genjax.inference.smc import resample
    for w in vecs[5:9]:
        k += 1
        p = make_particles(G, len(w), w, jr.key(k))
        q1 = G.seed(lambda pp: resample(pp, method="systematic"))(jr.key(k + 1), p)
        q2 = G.seed(lambda pp: resample(pp, method="systematic"))(jr.key(k + 2), q1)
        if abs(lml(q2) - lml(p)) > 1e-4 * (1 + abs(lml(p))):
            ctx.property_failure(None, "log_marginal_likelihood drifts over resample -> resample", {"kind": "history", "weights": [str(x) for x in w]})
        idx, cons = source_indices(G, q1, q2)
        if sorted(idx) != list(range(len(w))) and len(set(np.asarray(q1.traces.get_choices()["x"]).tolist())) == len(w):
            ctx.property_failure(None, "systematic resampling of equally weighted particles does not keep one copy each", {"kind": "history", "weights": [str(x) for x in w], "idx": idx})
        ctx.case(nontrivial_key=("hist", tuple(w)))
    M = 4000 if ctx.thorough else 1500
    for w in ([Fr(1), Fr(2), Fr(3)], [Fr(5), Fr(1), Fr(1), Fr(0), Fr(3)]) + (([Fr(1)] * 4, [Fr(7), Fr(1)]) if ctx.thorough else ()):
        for method in ("systematic", "categorical"):
            expectation_check(G, ctx, list(w), method, M)
    return {"rule": RULE}


def replay(ctx, payload):
    G = impl.load()
    c = payload.get("case") or {}
    if c.get("kind") == "resample":
        check_one(G, ctx, [Fr(x) for x in c["weights"]], c["key"], c["method"], diag=c.get("diag"), acc=c.get("acc", 0.0))
    elif c.get("kind") == "expected-copies":
        expectation_check(G, ctx, [Fr(x) for x in c["weights"]], c["method"], c["keys"])
    for i in ctx.issues:
        print("REPRODUCED:", i["what"])
    if not ctx.issues:
        print("not reproduced")
    return 1 if ctx.issues else 0
