"""Probe distributions built with genjax's public API only.

d0/d1/d2 mirror `ratPrims` in lean/GenjaxModel/Model/GfiIO.lean:
  * logpdf is a small-integer polynomial (exact in float32 on dyadic inputs; it is NOT
    normalised - the weight algebra of the GFI does not care),
  * the "sampler" ignores its key and returns a deterministic function of the parameters,
    so that a model without threefry can predict every fresh draw.
"""
import functools

import jax.numpy as jnp


def _bshape(sample_shape, *params):
    shp = jnp.broadcast_shapes(*[jnp.shape(p) for p in params]) if params else ()
    return tuple(sample_shape) + tuple(shp)


@functools.lru_cache(maxsize=None)
def make(genjax_id):
    import genjax
    from genjax.core import distribution
    from genjax.pjax import wrap_logpdf, wrap_sampler

    def s0(key, a, sample_shape=()):
        return jnp.broadcast_to(jnp.asarray(a, jnp.float32) + 0.5, _bshape(sample_shape, a))

    def l0(v, a):
        return -((v - a) * (v - a))

    def s1(key, a, b, sample_shape=()):
        return jnp.broadcast_to(jnp.asarray(a, jnp.float32) - b + 0.25, _bshape(sample_shape, a, b))

    def l1(v, a, b):
        return -((v - a) * (v - a)) + b * v - 1.0

    def s2(key, sample_shape=()):
        return jnp.broadcast_to(jnp.float32(0.75), tuple(sample_shape))

    def l2(v):
        return -(v * v) / 2.0 - 0.25

    return [
        distribution(wrap_sampler(s0, name="probe0"), wrap_logpdf(l0), name="probe0"),
        distribution(wrap_sampler(s1, name="probe1"), wrap_logpdf(l1), name="probe1"),
        distribution(wrap_sampler(s2, name="probe2"), wrap_logpdf(l2), name="probe2"),
    ]


ARITY = [1, 2, 0]
