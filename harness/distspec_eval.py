#!/usr/bin/env python3
"""Numeric evaluator for the C13 spec-density terms printed by the Lean driver (`(distspec)`).

The Lean side (lean/GenjaxModel/Model/DistExpr.lean) holds one closed expression term per genjax
distribution; lean/GenjaxModel/Proofs/DistExpr.lean + DistExprVec.lean prove that the real-valued
denotation of each term IS the density `<name>Pdf` / `<name>Pmf` whose normalisation is proved in
Proofs/DistSpec*.lean (theorems `C13_spec_<name>_denotes`).  This module evaluates the printed
terms in floating point, following the denotation `DE.denoteV` clause by clause — including
Mathlib's totalisations (a/0 = 0, log 0 = 0, log(-a) = log a, sqrt(a<0) = 0, Gamma(-n) = 0,
0^b = 0 for b != 0, 0^0 = 1, a^b = exp(b log|a|) cos(pi b) for a < 0).

Grammar of the driver's answer to the input line `(distspec)`:

    ANSWER ::= (ok ENTRY ENTRY ...)
    ENTRY  ::= (NAME NPARAMS KIND TERM)        NAME genjax name, NPARAMS decimal, KIND one of
                                               real pos unit nat nat1 bool fin3 natvec3 simplex3 realvec2
    TERM   ::= (c Q)            rational literal, Q = INT or INT/POSINT (lowest terms)
             | (x)              the point (= coordinate 0 of a vector point)
             | (xi I)           coordinate I of a vector point (0 if absent)
             | (p I)            parameter I, documented order (0 if absent)
             | (+ T T) | (- T T) | (* T T) | (/ T T)      real field operations, a/0 = 0
             | (neg T) | (inv T)                          -a, a^-1 (0^-1 = 0)
             | (npow T N)       a^N, N a decimal natural-number literal
             | (exp T) | (log T) | (sqrt T) | (abs T)
             | (pi)
             | (rpow T T)       Real.rpow
             | (gamma T)        Real.Gamma
             | (fact T)         floor+(a)!   (floor+ = natural floor, 0 for negative a)
             | (choose T T)     Ring.choose a floor+(k) = a(a-1)...(a-k+1)/k!
             | (iflt T T T T)   if a < b then t else e
             | (ifle T T T T)   if a <= b then t else e
             | (zeta T)         real part of Riemann zeta at the real argument a

Only `math` and `scipy.special` are used by `evaluate`; the self-test additionally uses scipy.stats.
"""
import math
import os
import subprocess
import sys
from fractions import Fraction

from scipy import special as _sp


# ---------------------------------------------------------------- s-expressions
def parse_sexp(s):
    """parse one s-expression into nested lists of str"""
    toks = s.replace("(", " ( ").replace(")", " ) ").split()
    pos = 0

    def one():
        nonlocal pos
        t = toks[pos]
        pos += 1
        if t == "(":
            out = []
            while toks[pos] != ")":
                out.append(one())
            pos += 1
            return out
        if t == ")":
            raise ValueError("unbalanced )")
        return t
    e = one()
    if pos != len(toks):
        raise ValueError("trailing tokens")
    return e


# ---------------------------------------------------------------- totalised real operations
def _div(a, b):
    return 0.0 if b == 0 else a / b


def _log(a):
    return 0.0 if a == 0 else math.log(abs(a))


def _sqrt(a):
    return 0.0 if a < 0 else math.sqrt(a)


def _rpow(a, b):
    if a > 0:
        return math.pow(a, b)
    if a == 0:
        return 1.0 if b == 0 else 0.0
    return math.exp(math.log(-a) * b) * math.cos(b * math.pi)


def _gamma(a):
    if a <= 0 and a == math.floor(a):
        return 0.0          # Real.Gamma_neg_nat_eq_zero / Real.Gamma_zero
    return float(_sp.gamma(a))


def _nat_floor(a):
    return max(0, math.floor(a))


def _choose(a, k):
    k = _nat_floor(k)
    if a == math.floor(a) and 0 <= a < 2 ** 53:
        return float(math.comb(int(a), k))          # exact for natural a (Ring.choose_natCast)
    r = 1.0
    for i in range(k):
        r *= (a - i) / (i + 1)
    return r


_EULER_GAMMA = 0.57721566490153286060651209008240243


def _zeta(a):
    if a == 1:
        return (_EULER_GAMMA - math.log(4 * math.pi)) / 2      # Mathlib's value at the pole: riemannZeta_one
    return float(_sp.zeta(a))                                   # scipy continues analytically for a < 1


# ---------------------------------------------------------------- evaluator
def evaluate(term, params, x):
    """value of the spec term (nested lists as returned by parse_sexp, or a string) at the parameter list
    `params` (documented order, vector parameters flattened) and the point `x` (number, bool, or sequence)"""
    if isinstance(term, str):
        term = parse_sexp(term)
    ps = [float(v) for v in params]
    if isinstance(x, (bool, int, float)) or not hasattr(x, "__len__"):
        xs = [float(x)]
    else:
        xs = [float(v) for v in x]

    def get(l, i):
        return l[i] if 0 <= i < len(l) else 0.0

    def ev(t):
        op = t[0]
        if op == "c":
            return float(Fraction(t[1]))
        if op == "x":
            return get(xs, 0)
        if op == "xi":
            return get(xs, int(t[1]))
        if op == "p":
            return get(ps, int(t[1]))
        if op == "+":
            return ev(t[1]) + ev(t[2])
        if op == "-":
            return ev(t[1]) - ev(t[2])
        if op == "*":
            return ev(t[1]) * ev(t[2])
        if op == "/":
            return _div(ev(t[1]), ev(t[2]))
        if op == "neg":
            return -ev(t[1])
        if op == "inv":
            return _div(1.0, ev(t[1]))
        if op == "npow":
            return ev(t[1]) ** int(t[2])
        if op == "exp":
            return math.exp(ev(t[1]))
        if op == "log":
            return _log(ev(t[1]))
        if op == "sqrt":
            return _sqrt(ev(t[1]))
        if op == "pi":
            return math.pi
        if op == "rpow":
            return _rpow(ev(t[1]), ev(t[2]))
        if op == "gamma":
            return _gamma(ev(t[1]))
        if op == "abs":
            return abs(ev(t[1]))
        if op == "fact":
            return float(math.factorial(_nat_floor(ev(t[1]))))
        if op == "choose":
            return _choose(ev(t[1]), ev(t[2]))
        if op == "iflt":
            return ev(t[3]) if ev(t[1]) < ev(t[2]) else ev(t[4])
        if op == "ifle":
            return ev(t[3]) if ev(t[1]) <= ev(t[2]) else ev(t[4])
        if op == "zeta":
            return _zeta(ev(t[1]))
        raise ValueError(f"unknown node {op!r}")
    return ev(term)


def load_table(driver=None):
    """run the compiled Lean driver on `(distspec)`; returns {name: (nparams, kind, term)}"""
    if driver is None:
        here = os.path.dirname(os.path.abspath(__file__))
        for cand in (os.path.join(here, ".lake/build/bin/driver"), os.path.join(here, "../lean/.lake/build/bin/driver"),
                     os.path.join(here, "lean/.lake/build/bin/driver")):
            if os.path.exists(cand):
                driver = cand
                break
        else:
            raise FileNotFoundError("driver binary not found")
    out = subprocess.run([driver], input="(distspec)\n", capture_output=True, text=True, check=True).stdout
    e = parse_sexp(out.strip().splitlines()[0])
    if not (isinstance(e, list) and e and e[0] == "ok"):
        raise RuntimeError(f"driver answered {out[:200]!r}")
    return {ent[0]: (int(ent[1]), ent[2], ent[3]) for ent in e[1:]}


# ---------------------------------------------------------------- self-test against scipy.stats
def _cases():
    """(name, params (flattened, documented order), reference logpdf/logpmf callable, points)"""
    import numpy as np
    from scipy import stats
    from scipy.special import expit, logsumexp, zeta
    C = []
    for l in (-1.5, 0.3, 2.0):
        C.append(("bernoulli", [l], stats.bernoulli(expit(l)).logpmf, [0, 1]))
    for p in (0.1, 0.5, 0.85):
        C.append(("flip", [p], stats.bernoulli(p).logpmf, [False, True]))
    for a, b in ((0.7, 2.0), (2.5, 1.5)):
        C.append(("beta", [a, b], stats.beta(a, b).logpdf, [0.05, 0.3, 0.8, 0.97]))
    for p in (0.2, 0.6):
        C.append(("geometric", [p], lambda k, p=p: k * math.log(1 - p) + math.log(p), [0, 1, 2, 5, 9]))
        C.append(("geometric", [p], lambda k, p=p: stats.geom(p).logpmf(k + 1), [0, 1, 2, 5, 9]))
    for m, s in ((0.0, 1.0), (-2.0, 0.3)):
        C.append(("normal", [m, s], stats.norm(m, s).logpdf, [m - 2 * s, m - 0.3 * s, m, m + 1.7 * s]))
    C.append(("uniform", [-1.0, 2.5], stats.uniform(-1.0, 3.5).logpdf, [-0.9, 0.0, 2.4]))
    for r in (0.5, 3.0):
        C.append(("exponential", [r], stats.expon(scale=1 / r).logpdf, [0.05, 0.5, 2.0]))
    for r in (0.7, 4.0):
        C.append(("poisson", [r], stats.poisson(r).logpmf, [0, 1, 3, 8]))
    for n, p in ((5, 0.3), (8, 0.75)):
        C.append(("binomial", [float(n), p], stats.binom(n, p).logpmf, [0, 1, 3, n]))
    for c, r in ((2.0, 1.5), (0.8, 0.5)):
        C.append(("gamma", [c, r], stats.gamma(c, scale=1 / r).logpdf, [0.1, 1.0, 3.0]))
    C.append(("log_normal", [0.2, 0.6], stats.lognorm(0.6, scale=math.exp(0.2)).logpdf, [0.3, 1.0, 2.5]))
    C.append(("student_t", [4.0, 0.5, 1.5], stats.t(4.0, 0.5, 1.5).logpdf, [-2.0, 0.5, 3.0]))
    C.append(("student_t", [1.0, -0.5, 0.7], stats.cauchy(-0.5, 0.7).logpdf, [-2.0, 0.5, 3.0]))
    C.append(("laplace", [0.5, 1.2], stats.laplace(0.5, 1.2).logpdf, [-1.0, 0.5, 2.0]))
    C.append(("half_normal", [1.3], stats.halfnorm(scale=1.3).logpdf, [0.1, 1.0, 2.5]))
    C.append(("inverse_gamma", [3.0, 2.0], stats.invgamma(3.0, scale=2.0).logpdf, [0.3, 1.0, 2.5]))
    C.append(("weibull", [1.5, 2.0], stats.weibull_min(1.5, scale=2.0).logpdf, [0.3, 1.5, 3.0]))
    C.append(("cauchy", [0.3, 0.8], stats.cauchy(0.3, 0.8).logpdf, [-2.0, 0.3, 4.0]))
    C.append(("chi2", [3.0], stats.chi2(3.0).logpdf, [0.5, 2.0, 6.0]))
    # TFP NegativeBinomial(total_count r, probs p): successes (prob p) before r failures = scipy nbinom(r, 1-p)
    C.append(("negative_binomial", [3.0, 0.4], stats.nbinom(3, 0.6).logpmf, [0, 1, 4, 9]))
    C.append(("negative_binomial", [2.5, 0.7], stats.nbinom(2.5, 0.3).logpmf, [0, 1, 4, 9]))
    C.append(("zipf", [2.5], lambda k: -2.5 * math.log(k) - math.log(zeta(2.5)), [1, 2, 5, 20]))
    C.append(("zipf", [3.0], stats.zipf(3.0).logpmf, [1, 2, 5, 20]))
    for lg in ((0.0, 1.0, -1.0), (2.0, -3.0, 0.5), (0.0, -150.0, -200.0)):
        C.append(("categorical", list(lg), lambda k, lg=lg: np.array(lg)[int(k)] - logsumexp(lg), [0, 1, 2]))
    C.append(("multinomial", [4.0, 0.2, 0.5, 0.3], stats.multinomial(4, [0.2, 0.5, 0.3]).logpmf,
              [[1.0, 2.0, 1.0], [0.0, 4.0, 0.0], [2.0, 0.0, 2.0]]))
    C.append(("dirichlet", [1.5, 2.0, 0.8], stats.dirichlet([1.5, 2.0, 0.8]).logpdf, [[0.2, 0.5, 0.3], [0.6, 0.1, 0.3]]))
    cov = [[1.0, 0.6], [0.6, 2.0]]
    C.append(("multivariate_normal", [0.5, -1.0, 1.0, 0.6, 0.6, 2.0], stats.multivariate_normal([0.5, -1.0], cov).logpdf,
              [[0.0, 0.0], [1.0, -2.5]]))
    return C


def _out_of_support():
    """(name, params, point): the term must evaluate to exactly 0"""
    return [("beta", [0.7, 2.0], -0.1), ("beta", [0.7, 2.0], 1.2), ("uniform", [-1.0, 2.5], 3.0), ("uniform", [-1.0, 2.5], -2.0),
            ("exponential", [0.5], -1.0), ("gamma", [2.0, 1.5], -0.5), ("gamma", [2.0, 1.5], 0.0), ("log_normal", [0.2, 0.6], -1.0),
            ("half_normal", [1.3], -0.2), ("inverse_gamma", [3.0, 2.0], 0.0), ("weibull", [1.5, 2.0], -0.1), ("chi2", [3.0], -1.0),
            ("binomial", [5.0, 0.3], 6), ("zipf", [2.5], 0), ("multinomial", [4.0, 0.2, 0.5, 0.3], [1.0, 1.0, 1.0])]


def selftest(driver=None, tol=1e-9, verbose=True):
    table = load_table(driver)
    expected = ["bernoulli", "flip", "beta", "geometric", "normal", "uniform", "exponential", "poisson", "binomial", "gamma",
                "log_normal", "student_t", "laplace", "half_normal", "inverse_gamma", "weibull", "cauchy", "chi2",
                "negative_binomial", "zipf", "categorical", "multinomial", "dirichlet", "multivariate_normal"]
    bad = []
    missing = [n for n in expected if n not in table]
    if missing:
        bad.append(("missing entries", missing))
    seen = set()
    n_pts = 0
    worst = 0.0
    for name, params, ref, pts in _cases():
        nparams, kind, term = table[name]
        if len(params) != nparams:
            bad.append((name, f"table says {nparams} parameters, test supplies {len(params)}"))
            continue
        seen.add(name)
        for x in pts:
            v = evaluate(term, params, x)
            want = float(ref(x))
            got = math.log(v) if v > 0 else float("-inf")
            err = abs(got - want) / max(1.0, abs(want))
            worst = max(worst, err)
            n_pts += 1
            if not err <= tol:
                bad.append((name, params, x, got, want))
    for name, params, x in _out_of_support():
        v = evaluate(table[name][2], params, x)
        n_pts += 1
        if v != 0.0:
            bad.append((name, params, x, v, "expected exactly 0 outside the support"))
    untested = [n for n in table if n not in seen]
    if untested:
        bad.append(("untested entries", untested))
    if verbose:
        print(f"distspec_eval selftest: {len(table)} table entries, {n_pts} points, worst relative log-density error {worst:.2e}")
        for b in bad:
            print("  MISMATCH", b)
        print("OK" if not bad else "FAILED")
    return not bad


if __name__ == "__main__":
    sys.exit(0 if selftest(sys.argv[1] if len(sys.argv) > 1 else None) else 1)
