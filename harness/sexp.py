"""S-expressions for the Lean driver line protocol (Python side)."""
from fractions import Fraction


def dumps(x) -> str:
    if isinstance(x, (list, tuple)):
        return "(" + " ".join(dumps(e) for e in x) + ")"
    if isinstance(x, bool):
        return "T" if x else "F"
    if isinstance(x, Fraction):
        return f"{x.numerator}/{x.denominator}" if x.denominator != 1 else str(x.numerator)
    if isinstance(x, float):
        raise TypeError("floats are not sent to the model; use Fraction")
    return str(x)


def loads(s: str):
    toks = s.replace("(", " ( ").replace(")", " ) ").split()
    pos = 0

    def parse():
        nonlocal pos
        t = toks[pos]
        pos += 1
        if t == "(":
            out = []
            while toks[pos] != ")":
                out.append(parse())
            pos += 1
            return out
        return t

    r = parse()
    if pos != len(toks):
        raise ValueError("trailing tokens in " + s)
    return r


def num(tok: str) -> Fraction:
    return Fraction(tok)
