"""Shared machinery: context, Lean build/audit/driver, verdict, evidence."""
from __future__ import annotations

import fcntl
import hashlib
import json
import os
import random
import re
import subprocess
import sys
import time
import traceback

VERIF = os.path.dirname(os.path.dirname(os.path.abspath(__file__)))
LEAN = os.path.join(VERIF, "lean")
REPO = os.environ.get("VERIF_REPO", "/repo")

ALLOWED_AXIOMS = {"propext", "Classical.choice", "Quot.sound"}
FORBIDDEN = re.compile(
    r"\bsorry\b|\badmit\b|^\s*axiom\s|native_decide|bv_decide|implemented_by|\bunsafe\s|maxHeartbeats\s+0"
)

TRUSTED_BASE = [
    "Lean 4.33 kernel (leanchecker re-check in the thorough tier)",
    "axioms allowed: propext, Classical.choice, Quot.sound (audited by #print axioms every run)",
    "hand-written Lean model; faithfulness checked (not proved) by the differential correspondence run",
    "harness: generators, canonicalisation, compat build (JAX 0.7->0.11 call vocabulary), reference oracles",
    "JAX/XLA/TFP (vmap, scan, cond, jvp rules, threefry, TFP samplers and log_prob) modelled, not verified",
]


class Infra(Exception):
    """infrastructure problem: exit 2, never a VIOLATION"""


# ----------------------------------------------------------------------------- Lean


def _lock():
    os.makedirs(os.path.join(LEAN, ".lake"), exist_ok=True)
    fh = open(os.path.join(LEAN, ".lake", "verif.lock"), "w")
    fcntl.flock(fh, fcntl.LOCK_EX)
    return fh


def lean_build(targets: list[str]) -> tuple[bool, str]:
    fh = _lock()
    try:
        p = subprocess.run(
            ["lake", "build", *targets], cwd=LEAN, capture_output=True, text=True, timeout=3000
        )
    finally:
        fh.close()
    return p.returncode == 0, (p.stdout + p.stderr)[-4000:]


def strip_comments(src: str) -> str:
    src = re.sub(r"/-.*?-/", "", src, flags=re.S)
    return re.sub(r"--.*", "", src)


def lean_sources_for(prop_id: str) -> list[str]:
    """Props file of the property + every GenjaxModel file it (transitively) imports."""
    seen, todo = [], [f"GenjaxModel.Props.{prop_id}"]
    while todo:
        m = todo.pop()
        path = os.path.join(LEAN, *m.split(".")) + ".lean"
        if path in seen or not os.path.exists(path):
            continue
        seen.append(path)
        for imp in re.findall(r"^import\s+(GenjaxModel\.[\w.]+)", open(path).read(), flags=re.M):
            todo.append(imp)
    return seen


def lean_audit(prop_id: str) -> dict:
    """Build the property's theorems, grep for forbidden tokens, #print axioms on each."""
    t0 = time.time()
    res = {"ok": False, "theorems": [], "bad": [], "log": "", "obligations": 0, "discharged": 0}
    props = os.path.join(LEAN, "GenjaxModel", "Props", f"{prop_id}.lean")
    if not os.path.exists(props):
        res["log"] = f"missing {props}"
        return res
    ok, log = lean_build([f"GenjaxModel.Props.{prop_id}", "driver"])
    if not ok:
        res["log"] = "lake build failed:\n" + log
        res["bad"].append("build")
        return res
    for path in lean_sources_for(prop_id):
        code = strip_comments(open(path).read())
        for i, line in enumerate(code.split("\n"), 1):
            if FORBIDDEN.search(line):
                res["bad"].append(f"forbidden token in {os.path.relpath(path, LEAN)}: {line.strip()[:80]}")
    names = re.findall(r"^theorem\s+(" + prop_id + r"_\w+)", strip_comments(open(props).read()), flags=re.M)
    res["theorems"] = names
    res["obligations"] = len(names)
    adir = os.path.join(LEAN, ".lake", "audit")
    os.makedirs(adir, exist_ok=True)
    afile = os.path.join(adir, f"{prop_id}_{os.getpid()}.lean")
    with open(afile, "w") as fh:
        nss = re.findall(r"^namespace\s+([\w.]+)", strip_comments(open(props).read()), flags=re.M) or ["Genjax"]
        fh.write(f"import GenjaxModel.Props.{prop_id}\n" + "".join(f"open {n}\n" for n in dict.fromkeys(["Genjax"] + nss)))
        for n in names:
            fh.write(f"#print axioms {n}\n")
    p = subprocess.run(["lake", "env", "lean", afile], cwd=LEAN, capture_output=True, text=True, timeout=1800)
    os.unlink(afile)
    out = p.stdout + p.stderr
    axioms = {}
    for m in re.finditer(r"'([\w.]+)' depends on axioms: \[([^\]]*)\]", out):
        axioms[m.group(1).split(".")[-1]] = {a.strip() for a in m.group(2).split(",") if a.strip()}
    for m in re.finditer(r"'([\w.]+)' does not depend on any axioms", out):
        axioms[m.group(1).split(".")[-1]] = set()
    used = set()
    for n in names:
        if n not in axioms:
            res["bad"].append(f"no axiom report for {n}")
            continue
        extra = axioms[n] - ALLOWED_AXIOMS
        used |= axioms[n]
        if extra:
            res["bad"].append(f"{n} depends on foreign axioms {sorted(extra)}")
        else:
            res["discharged"] += 1
    res["axioms_used"] = sorted(used)
    res["ok"] = not res["bad"] and res["discharged"] == res["obligations"] and res["obligations"] > 0
    res["log"] = out[-2000:] if not res["ok"] else ""
    res["wall_s"] = round(time.time() - t0, 2)
    return res


def leanchecker(prop_id: str) -> tuple[bool, str]:
    p = subprocess.run(
        ["lake", "env", "leanchecker", f"GenjaxModel.Props.{prop_id}"],
        cwd=LEAN, capture_output=True, text=True, timeout=3000,
    )
    return p.returncode == 0, (p.stdout + p.stderr)[-1500:]


def driver_run(lines: list[str]) -> list[str]:
    """Feed lines to the compiled Lean model driver; one output line per input line."""
    exe = os.path.join(LEAN, ".lake", "build", "bin", "driver")
    if not os.path.exists(exe):
        ok, log = lean_build(["driver"])
        if not ok:
            raise Infra("driver build failed: " + log)
    p = subprocess.run([exe], input="\n".join(lines) + "\n", capture_output=True, text=True, timeout=3000)
    if p.returncode != 0:
        raise Infra("driver crashed: " + p.stderr[-2000:])
    out = p.stdout.split("\n")
    if out and out[-1] == "":
        out.pop()
    if len(out) != len(lines):
        raise Infra(f"driver returned {len(out)} lines for {len(lines)} inputs")
    return out


def compat_selftest(timeout=2400) -> dict:
    """thorough tier: run upstream tests/test_core.py + tests/test_pjax.py of the checked tree against the compat build of that tree.
    Informational (recorded in the evidence, never part of the verdict): it shows that the JAX-0.11 vocabulary shim of
    harness/compat.py runs genjax's own test-suite, i.e. that the code under test is the code upstream tests."""
    import compat
    root = compat.build(REPO)
    env = dict(os.environ, PYTHONPATH=root + os.pathsep + os.environ.get("PYTHONPATH", ""), JAX_PLATFORMS="cpu")
    try:
        p = subprocess.run(["/venv/bin/python", "-m", "pytest", "-q", "-p", "no:cacheprovider", "--no-cov", "tests/test_core.py", "tests/test_pjax.py"],
                           cwd=REPO, env=env, capture_output=True, text=True, timeout=timeout)
        tail = (p.stdout + p.stderr).strip().splitlines()[-1:] or [""]
        m = re.search(r"(\d+) passed", tail[0])
        f = re.search(r"(\d+) failed", tail[0])
        return {"summary": tail[0][-200:], "passed": int(m.group(1)) if m else 0, "failed": int(f.group(1)) if f else 0}
    except Exception as e:
        return {"summary": f"self-test did not run: {type(e).__name__}: {e}"[:200], "passed": 0, "failed": -1}


# ----------------------------------------------------------------------------- findings


def load_known_findings() -> list[dict]:
    path = os.path.join(VERIF, "known_findings.jsonl")
    out = []
    if os.path.exists(path):
        for line in open(path):
            line = line.strip()
            if line.startswith("{"):
                out.append(json.loads(line))
    return out


# ----------------------------------------------------------------------------- context / verdict


class Ctx:
    def __init__(self, prop_id: str, tier: str, seed: int):
        self.prop_id = prop_id
        self.tier = tier
        self.seed = seed
        self.rng = random.Random(seed * 1000003 + int(hashlib.sha1(prop_id.encode()).hexdigest()[:6], 16))
        self.t0 = time.time()
        self.issues: list[dict] = []       # property failures on the implementation (with input)
        self.corr_breaks: list[dict] = []  # model != implementation
        self.known_hits: dict[str, dict] = {}
        self.coverage: dict = {"evaluations": 0, "samples": [], "histogram": {}}
        self.nontrivial: set = set()
        self.assumptions: list[str] = []
        self.known = [k for k in load_known_findings()
                      if (k.get("property") == prop_id or prop_id in (k.get("properties") or [])) and k.get("status") == "open"]
        self.thorough = tier == "thorough"

    # -- bookkeeping
    def count(self, key: str, n: int = 1):
        h = self.coverage["histogram"]
        h[key] = h.get(key, 0) + n

    def case(self, sample=None, nontrivial_key=None):
        self.coverage["evaluations"] += 1
        if nontrivial_key is not None:
            self.nontrivial.add(nontrivial_key)
        if sample is not None and len(self.coverage["samples"]) < 6:
            self.coverage["samples"].append(sample)

    # -- outcomes
    def property_failure(self, finding_class: str | None, what: str, case: dict, matches_asis: bool = False):
        """The implementation violates the property on `case`.
        finding_class: class name of a modelled `asis` deviation when the implementation's
        behaviour equals what the asis model predicts (matches_asis) -- only then may a
        listed known finding absorb it."""
        if finding_class and matches_asis:
            for k in self.known:
                if k.get("class") == finding_class:
                    hit = self.known_hits.setdefault(finding_class, {"finding": k, "n": 0, "example": case, "what": what})
                    hit["n"] += 1
                    return
        self.issues.append({"what": what, "class": finding_class, "case": case})

    def correspondence_break(self, name: str, what: str, case: dict):
        self.corr_breaks.append({"name": name, "what": what, "case": case})


def _replay_path(prop_id: str, payload: dict) -> str:
    h = hashlib.sha1(json.dumps(payload, sort_keys=True, default=str).encode()).hexdigest()[:10]
    d = os.path.join(VERIF, "replays")
    os.makedirs(d, exist_ok=True)
    return os.path.join(d, f"{prop_id}-{h}.json")


def finish(ctx: Ctx, audit: dict, level_extra: dict | None = None) -> int:
    """Write evidence, print KNOWN-FINDING / VIOLATION lines, return exit code."""
    lines = []
    rc = 0
    for cls, hit in sorted(ctx.known_hits.items()):
        lines.append(f"KNOWN-FINDING: property={ctx.prop_id} {hit['finding']['what']} [class={cls}, reproduced on {hit['n']} case(s) this run]")
    violations = 0
    if ctx.issues:
        # report the smallest failing case first
        ctx.issues.sort(key=lambda i: len(json.dumps(i["case"], default=str)))
        first = ctx.issues[0]
        payload = {
            "property": ctx.prop_id, "seed": ctx.seed, "tier": ctx.tier, "layer": "monitor",
            "what": first["what"], "class": first["class"], "case": first["case"],
            "other_failures": len(ctx.issues) - 1,
            "broken_obligations": audit.get("bad", []),
            "broken_correspondence": [c["name"] for c in ctx.corr_breaks][:5],
        }
        path = _replay_path(ctx.prop_id, payload)
        json.dump(payload, open(path, "w"), indent=1, default=str)
        lines.append(f"VIOLATION property={ctx.prop_id} replay={path}")
        violations = len(ctx.issues)
        rc = 1
    elif ctx.corr_breaks or not audit.get("ok", False):
        first = ctx.corr_breaks[0] if ctx.corr_breaks else None
        payload = {
            "property": ctx.prop_id, "seed": ctx.seed, "tier": ctx.tier,
            "layer": "correspondence" if first else "proof",
            "no_longer_checks": ([c["name"] for c in ctx.corr_breaks][:10] if first else audit.get("bad", [])),
            "what": first["what"] if first else audit.get("log", "")[-1500:],
            "case": first["case"] if first else None,
            "note": "model and implementation disagree (or a proof obligation broke); the failing-input search found no input on which the implementation violates the property",
        }
        path = _replay_path(ctx.prop_id, payload)
        json.dump(payload, open(path, "w"), indent=1, default=str)
        lines.append(f"VIOLATION property={ctx.prop_id} replay={path} no-failing-input-found")
        violations = max(1, len(ctx.corr_breaks))
        rc = 1
    cov = dict(ctx.coverage)
    cov["distinct_nontrivial"] = len(ctx.nontrivial)
    cov["obligations"] = audit.get("obligations", 0)
    cov["discharged"] = audit.get("discharged", 0)
    cov["checker_cmd"] = f"cd lean && lake build GenjaxModel.Props.{ctx.prop_id} && lake env lean <#print axioms of {', '.join(audit.get('theorems', [])[:40])}>"
    cov["trusted_base"] = TRUSTED_BASE + [f"axioms actually used by {ctx.prop_id} theorems: {audit.get('axioms_used', [])}"]
    cov["theorems"] = audit.get("theorems", [])
    cov["traces_validated_against_impl"] = cov["evaluations"]
    cov["known_findings_reproduced"] = {k: v["n"] for k, v in ctx.known_hits.items()}
    cov["correspondence_breaks"] = len(ctx.corr_breaks)
    if level_extra:
        cov.update(level_extra)
    ev = {
        "property_id": ctx.prop_id, "tier": ctx.tier, "seed": ctx.seed, "level": "proof",
        "coverage": cov, "assumptions": ctx.assumptions or TRUSTED_BASE,
        "wall_s": round(time.time() - ctx.t0, 2), "violations": violations,
    }
    os.makedirs(os.path.join(VERIF, "evidence"), exist_ok=True)
    json.dump(ev, open(os.path.join(VERIF, "evidence", f"{ctx.prop_id}.json"), "w"), indent=1, default=str)
    for l in lines:
        print(l)
    print(f"[{ctx.prop_id}] tier={ctx.tier} seed={ctx.seed} cases={cov['evaluations']} nontrivial={cov['distinct_nontrivial']} "
          f"theorems={cov['discharged']}/{cov['obligations']} corr_breaks={len(ctx.corr_breaks)} failures={len(ctx.issues)} "
          f"known={ {k: v['n'] for k, v in ctx.known_hits.items()} } wall={ev['wall_s']}s -> exit {rc}")
    return rc


# ----------------------------------------------------------------------------- sharding
def _shard_entry(payload):
    """runs in a fresh process: executes module.func(ctx, *args) on a private Ctx, returns its findings"""
    import importlib
    import os
    import sys
    os.environ.setdefault("JAX_PLATFORMS", "cpu")
    sys.path.insert(0, os.path.dirname(os.path.abspath(__file__)))
    mod, func, prop_id, tier, seed, args = payload
    ctx = Ctx(prop_id, tier, seed)
    try:
        m = importlib.import_module(mod)
        getattr(m, func)(ctx, *args)
        err = None
    except Infra as e:
        err = f"Infra: {e}"
    except Exception:
        err = traceback.format_exc()[-1500:]
    return {
        "issues": ctx.issues, "corr_breaks": ctx.corr_breaks,
        "known_hits": {k: {"finding": v["finding"], "n": v["n"], "example": v["example"], "what": v["what"]} for k, v in ctx.known_hits.items()},
        "coverage": ctx.coverage, "nontrivial": [repr(x) for x in ctx.nontrivial], "error": err,
    }


def run_sharded(ctx: Ctx, mod: str, func: str, shard_args: list, nproc: int | None = None):
    """run func(ctx_i, *shard_args[i]) in parallel worker processes and merge the results into ctx"""
    import multiprocessing as mp
    nproc = nproc or min(len(shard_args), max(1, (os.cpu_count() or 4) - 2))
    payloads = [(mod, func, ctx.prop_id, ctx.tier, ctx.seed, a) for a in shard_args]
    mpctx = mp.get_context("spawn")
    with mpctx.Pool(nproc, maxtasksperchild=1) as pool:
        results = pool.map(_shard_entry, payloads, chunksize=1)
    for r in results:
        if r["error"]:
            raise Infra("shard failed: " + r["error"])
        ctx.issues += r["issues"]
        ctx.corr_breaks += r["corr_breaks"]
        for k, v in r["known_hits"].items():
            h = ctx.known_hits.setdefault(k, {"finding": v["finding"], "n": 0, "example": v["example"], "what": v["what"]})
            h["n"] += v["n"]
        ctx.coverage["evaluations"] += r["coverage"]["evaluations"]
        for s in r["coverage"]["samples"]:
            if len(ctx.coverage["samples"]) < 8:
                ctx.coverage["samples"].append(s)
        for k, n in r["coverage"]["histogram"].items():
            ctx.count(k, n)
        ctx.nontrivial |= set(r["nontrivial"])
