"""C06, hidden state: the staging caches of `seed` observed through public behaviour.

The Lean model `Model/SeedCache.lean` (driver command `seedcache`) says which calls of a history share a cache entry of
`cached_stage_dynamic` (keyed on function object, pytree structure, keyword names, static data, avals with weak types) and of the
per-sampler `FlatSamplerCache` slot (keyed on `(len(args), tuple(kwargs.keys()))`).  Here: families of calls of ONE long-lived sampler
that differ ONLY in keyword names / weak vs strong scalar type / shape / static data / pytree structure; call histories over a family
(seeded calls eager, under jit, vmap over keys, jit(vmap), through a long-lived or a fresh function object, interleaved with unseeded
calls of the sampler) are run on the implementation; every seeded result is compared with
  * the fresh-process-equivalent result (new sampler object, new function object, same key, same arguments, eager)  -> the property;
  * the model: a result that differs from the fresh one is absorbed as the open finding `flat-sampler-cache-avals` only when the model of
    the code (`Cfg.flatAsis`) predicts that this site runs the flat sampler staged for an earlier call AND the observed value is
    exactly that earlier program evaluated on the present arguments (recomputed with jax.make_jaxpr / eval_jaxpr).
Nothing in /repo is instrumented."""
import json
from functools import partial

import numpy as np

import common
import impl
import sexp

FINDING = "flat-sampler-cache-avals"
CFG_STAGE = [True, True, True, True, True, True, "none"]          # Cfg.code
CFG_FLAT_ASIS = [True, False, False, False, True, False, 1]       # Cfg.flatAsis
CFG_FLAT_SPEC = [True, True, True, True, True, True, 1]           # Cfg.flatSpec
MODES = ("eager", "jit", "vmap", "jitvmap")


class Form:
    """one way of calling a family's sampler: `binder(*args, **kwargs)`; `desc` = (tree, args, kw names, statics) for the model"""

    def __init__(self, name, args, kwargs, desc):
        self.name, self.args, self.kwargs, self.desc = name, args, kwargs, desc


class Family:
    def __init__(self, name, keyful, forms, differs_in):
        self.name, self.keyful, self.forms, self.differs_in = name, keyful, forms, differs_in


def families(G):
    import jax
    import jax.numpy as jnp
    from genjax import const

    def kw_keyful(key, lo=None, hi=None, sample_shape=()):
        base = jax.random.uniform(key, sample_shape)
        return base + (100.0 if lo is not None else 0.0) + (lo if lo is not None else hi)

    def u8_keyful(key, x, sample_shape=()):      # uint8(200) + 100 wraps to 44 when the 100 is weakly typed, is 300 when it is int32
        n = jnp.asarray(200, jnp.uint8) + x
        return n.astype(jnp.float32) + jax.random.uniform(key, sample_shape)

    def shape_keyful(key, x, sample_shape=()):   # one draw per element of x
        return x + jax.random.normal(key, tuple(sample_shape) + jnp.shape(x))

    def const_keyful(key, x, c, sample_shape=()):  # c: static payload (genjax.Const) or None
        m = 0.0 if c is None else c.value
        return x * m + jax.random.uniform(key, sample_shape)

    def opt_keyful(key, x, y, sample_shape=()):  # y: None or a second parameter
        return x + (50.0 if y is None else y) + jax.random.uniform(key, sample_shape)

    py_f, py_i = ["py", "float32"], ["py", "int32"]
    return [
        Family("keyword-names", kw_keyful, [
            Form("lo=", (), {"lo": 1.0}, ([], [py_f], ["lo"], [])),
            Form("hi=", (), {"hi": 1.0}, ([], [py_f], ["hi"], [])),
        ], "keyword names"),
        Family("weak-vs-strong-scalar", u8_keyful, [
            Form("python-int", (100,), {}, (["L"], [py_i], [], [])),
            Form("int32-array", (jnp.int32(100),), {}, (["L"], [["arr", [], "int32"]], [], [])),
            # a third form with ANOTHER signature: it evicts the single slot, so the next positional call is re-staged (transparent);
            # a dictionary-style cache would serve it the stale entry -- this separates `cap = some 1` from `cap = none` in the model
            Form("python-int-by-keyword", (), {"x": 100}, ([], [py_i], ["x"], [])),
        ], "weak type (third form: call signature)"),
        Family("scalar-vs-vector", shape_keyful, [
            Form("scalar", (jnp.float32(1.0),), {}, (["L"], [["arr", [], "float32"]], [], [])),
            Form("vector3", (jnp.zeros(3, jnp.float32),), {}, (["L"], [["arr", [3], "float32"]], [], [])),
        ], "shape"),
        Family("static-value", const_keyful, [
            Form("const(2)", (1.5, const(2.0)), {}, (["L", []], [py_f], [], [["int", 2]])),
            Form("const(3)", (1.5, const(3.0)), {}, (["L", []], [py_f], [], [["int", 3]])),
        ], "static data"),
        Family("none-vs-value", opt_keyful, [
            Form("None", (1.5, None), {}, (["L", []], [py_f], [], ["none"])),
            Form("value", (1.5, 2.0), {}, (["L", "L"], [py_f, py_f], [], [])),
        ], "pytree structure"),
    ]


# ------------------------------------------------------------------------------------------------ histories
# event = [kind, form index, mode, long_lived_function_object]      kind: "seeded" | "unseeded"
def scripted_histories(fam):
    n = len(fam.forms)
    out = []
    for ll in (False, True):
        for a in range(n):
            b = (a + 1) % n
            out.append([["seeded", a, "eager", ll], ["seeded", b, "eager", ll], ["seeded", a, "eager", ll]])
    for a in range(n):   # one form under every transformation, traced first: the four presentations of one user-level call coincide
        out.append([["seeded", a, "jit", False], ["seeded", a, "eager", False], ["seeded", a, "vmap", True], ["seeded", a, "jitvmap", True]])
    if n >= 3:
        out.append([["seeded", 0, "eager", False], ["seeded", 2, "eager", False], ["seeded", 1, "eager", False], ["seeded", 0, "eager", False]])
        out.append([["seeded", 0, "eager", False], ["unseeded", 2, "eager", False], ["seeded", 1, "jit", False], ["seeded", 0, "eager", True]])
    out.append([["seeded", 0, "eager", False], ["unseeded", 1, "eager", False], ["seeded", 0, "eager", False], ["seeded", 1, "jit", False]])
    out.append([["seeded", 1, "jit", True], ["seeded", 0, "vmap", True], ["seeded", 1, "eager", False], ["seeded", 0, "jitvmap", False]])
    return out


def random_history(rng, fam):
    evs = []
    for _ in range(rng.randint(3, 6)):
        kind = "seeded" if rng.random() < 0.8 else "unseeded"
        mode = rng.choices(MODES, weights=(55, 20, 15, 10))[0] if kind == "seeded" else "eager"
        evs.append([kind, rng.randrange(len(fam.forms)), mode, rng.random() < 0.5])
    if not any(e[0] == "seeded" for e in evs):
        evs.append(["seeded", 0, "eager", False])
    return evs


# ------------------------------------------------------------------------------------------------ model
def model_line(fam, events, fresh_binder, cfg_flat, jax_cfg=(True, True)):
    """fn ids: long-lived function object 10; fresh function objects 100+i; the long-lived sampler 7; fresh samplers 200+i"""
    evs = []
    for i, (kind, fi, mode, ll) in enumerate(events):
        tree, args, kw, st = fam.forms[fi].desc
        site = [200 + i if fresh_binder else 7, tree, args, kw, st]
        if kind == "seeded":
            evs.append(["seeded", mode, [10 if ll else 100 + i, tree, args, kw, st], [site]])
        else:
            evs.append(["unseeded", site])
    return sexp.dumps(["seedcache", ["jax", *jax_cfg], CFG_STAGE, cfg_flat, evs])


def model_predict(fam, events, fresh_binder):
    """per event: None (unseeded) or {"same": bool, "site_origin": event index} under the code's configuration, and the same under the
    repaired flat signature"""
    lines = [model_line(fam, events, fresh_binder, CFG_FLAT_ASIS), model_line(fam, events, fresh_binder, CFG_FLAT_SPEC)]
    outs = []
    for raw in common.driver_run(lines):
        r = sexp.loads(raw)
        if r[0] != "ok" or len(r) != len(events) + 1:
            raise common.Infra(f"seedcache: driver answered {raw[:200]}")
        outs.append([None if e == "-" else {"hit": e[0] == "hit", "same": e[1] == "same", "outer_origin": int(e[2]), "site_origin": int(e[3][0])}
                     for e in r[1:]])
    return outs


# ------------------------------------------------------------------------------------------------ implementation
def _outcome(thunk):
    try:
        return ("value", np.asarray(thunk()))
    except Exception as e:  # a seeded call that raises is an outcome of the history, too
        impl.reset_handlers()
        return ("raises", type(e).__name__ + ": " + str(e)[:120])


def _same(a, b, exact):
    if a[0] != b[0]:
        return False
    if a[0] == "raises":
        return True
    x, y = a[1], b[1]
    if x.dtype != y.dtype or x.shape != y.shape:
        return False
    if exact:
        return bool(np.array_equal(x, y))
    return bool(np.allclose(x.astype(np.float64), y.astype(np.float64), rtol=1e-5, atol=0))


def _show(o):
    return o[1] if o[0] == "raises" else [str(o[1].dtype), np.round(o[1].astype(np.float64), 5).tolist()]


def run_history(G, fam, events, key_int, fresh_binder):
    """results of the seeded events of one history on the implementation (one long-lived sampler, one long-lived function object)"""
    import jax
    import jax.random as jr
    from genjax.pjax import sample_binder
    binder = sample_binder(fam.keyful, name="c06cache")

    def make_fn():
        if fresh_binder:   # the `wrap_sampler` pattern of the built-in distributions: a new sampler (and slot) per trace
            return lambda *a, **kw: sample_binder(fam.keyful, name="c06cache")(*a, **kw)
        return lambda *a, **kw: binder(*a, **kw)

    long_lived = make_fn()
    key = jr.key(key_int)
    k3 = jr.wrap_key_data(np.stack([np.asarray(jr.key_data(jr.key(key_int + 7))), np.asarray(jr.key_data(key)), np.asarray(jr.key_data(jr.key(key_int + 8)))]))
    out = []
    for kind, fi, mode, ll in events:
        form = fam.forms[fi]
        if kind == "unseeded":
            _outcome(lambda: (binder if not fresh_binder else sample_binder(fam.keyful))(*form.args, **form.kwargs))
            out.append(None)
            continue
        s = G.seed(long_lived if ll else make_fn())
        if mode == "eager":
            th = lambda: s(key, *form.args, **form.kwargs)
        elif mode == "jit":
            th = lambda: jax.jit(s)(key, *form.args, **form.kwargs)
        elif mode == "vmap":
            th = lambda: jax.vmap(lambda k: s(k, *form.args, **form.kwargs))(k3)[1]
        else:
            th = lambda: jax.jit(lambda ks, a, kw: jax.vmap(lambda k: s(k, *a, **kw))(ks))(k3, form.args, form.kwargs)[1]
        out.append(_outcome(th))
    return out


def fresh_result(G, fam, form, key_int):
    """the call as the first call of a fresh process: new sampler object, new function object, eager"""
    import jax.random as jr
    from genjax.pjax import sample_binder
    b = sample_binder(fam.keyful, name="c06cache")
    return _outcome(lambda: G.seed(lambda *a, **kw: b(*a, **kw))(jr.key(key_int), *form.args, **form.kwargs))


def stale_result(fam, origin, form, key_int):
    """the model's prediction for a stale slot: the flat sampler staged at the ORIGIN form's arguments, evaluated on the present
    arguments with the site's key (the function has one site: sub-key of the first split)"""
    import jax
    import jax.random as jr

    def th():
        closed = jax.make_jaxpr(partial(fam.keyful, sample_shape=()))(jr.key(0), *origin.args, **origin.kwargs)
        flat = jax.tree_util.tree_leaves((form.args, form.kwargs))
        return jax.core.eval_jaxpr(closed.jaxpr, closed.consts, jr.split(jr.key(key_int))[1], *flat)[0]
    return _outcome(th)


def check_history(G, ctx, fam, events, key_int, fresh_binder):
    case = {"kind": "cache-history", "family": fam.name, "differs_in": fam.differs_in, "fresh_sampler_per_trace": fresh_binder,
            "events": json.dumps(events), "forms": [f.name for f in fam.forms], "key": key_int}
    asis, spec = model_predict(fam, events, fresh_binder)
    if any(p is not None and not p["same"] for p in spec):
        ctx.correspondence_break("SeedCache.run (Lean) under Cfg.flatSpec", "the model of the repaired signature predicts a stale program", case)
    got = run_history(G, fam, events, key_int, fresh_binder)
    refs = {}
    predicted_stale = 0
    for i, (ev, obs) in enumerate(zip(events, got)):
        if obs is None:
            continue
        kind, fi, mode, ll = ev
        form = fam.forms[fi]
        if fi not in refs:
            refs[fi] = fresh_result(G, fam, form, key_int)
            if refs[fi][0] == "raises":
                raise common.Infra(f"cache-history reference raised: {fam.name}/{form.name}: {refs[fi][1]}")
            # the model's `present` under JaxCfg.code: an eager call stages the sampler at the abstract values JAX itself assigns to the
            # arguments (Python scalars weakly typed) -- the fresh result must be the sampler's own jaxpr (jax.make_jaxpr) on its own arguments
            own = stale_result(fam, form, form, key_int)
            if not _same(own, refs[fi], exact=False):
                ctx.correspondence_break("SeedCache.present (Lean, JaxCfg.code): an eager seeded call stages at JAX's own abstract values",
                                         f"{fam.name}/{form.name}: the fresh eager result {_show(refs[fi])} is not the sampler traced by jax.make_jaxpr at "
                                         f"these arguments and run with the site key ({_show(own)})", {**case, "form": form.name})
        ref = refs[fi]
        pred = asis[i]
        predicted_stale += 0 if pred["same"] else 1
        if _same(obs, ref, exact=(mode == "eager")):
            ctx.count("cache-history:transparent" if pred["same"] else "cache-history:implementation-matches-flatSpec")
            continue
        where = {**case, "event": i, "form": form.name, "mode": mode, "observed": _show(obs), "fresh": _show(ref)}
        what = (f"{fam.name}: seeded call #{i} ({form.name}, {mode}) returns {_show(obs)} after the history but {_show(ref)} as the first call of a "
                f"fresh sampler/function (calls differ only in {fam.differs_in})")
        if not pred["same"]:
            origin = fam.forms[events[pred["site_origin"]][1]]
            want = stale_result(fam, origin, form, key_int)
            if _same(obs, want, exact=False):
                ctx.count("cache-history:stale-as-Cfg.flatAsis-predicts")
                ctx.property_failure(FINDING, what + f"; the site ran the flat sampler staged for '{origin.name}'", where, matches_asis=True)
                continue
            where["model_stale_prediction"] = _show(want)
        ctx.property_failure(None, what, where)
    ctx.case(sample=case if ctx.coverage["evaluations"] % 7 == 0 else None,
             nontrivial_key=("cache-history", fam.name, case["events"], fresh_binder) if len({e[1] for e in events}) > 1 else None)
    ctx.count("cache-history")
    ctx.count("cache-history:model-predicts-stale-events", predicted_stale)


def check_family(G, ctx, fam_index, rng, n_random):
    fam = families(G)[fam_index]
    key_int = 300 + 17 * fam_index + ctx.seed
    for events in scripted_histories(fam):
        check_history(G, ctx, fam, events, key_int, False)
        # the same history with a new sampler (a new slot) per trace: only the `stage` cache can be shared
        check_history(G, ctx, fam, events, key_int, True)
    for _ in range(n_random):
        check_history(G, ctx, fam, random_history(rng, fam), key_int + rng.randrange(50), rng.random() < 0.25)


N_FAMILIES = 5


def replay_case(G, ctx, c):
    fam = {f.name: f for f in families(G)}[c["family"]]
    check_history(G, ctx, fam, json.loads(c["events"]), c["key"], c["fresh_sampler_per_trace"])
