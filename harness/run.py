"""Entry point: ./check Cxx [--tier quick|thorough] [--replay file]"""
import argparse
import importlib
import json
import os
import sys
import traceback

HERE = os.path.dirname(os.path.abspath(__file__))
sys.path.insert(0, HERE)
import common  # noqa: E402


def main():
    ap = argparse.ArgumentParser()
    ap.add_argument("prop")
    ap.add_argument("--tier", default=os.environ.get("VERIF_TIER", "quick"))
    ap.add_argument("--replay", default=None)
    a = ap.parse_args()
    seed = int(os.environ.get("VERIF_SEED", "0") or 0)
    tier = a.tier if a.tier in ("quick", "thorough") else "quick"
    try:
        mod = importlib.import_module(f"props.{a.prop.lower()}")
    except ModuleNotFoundError as e:
        print(f"no check for {a.prop}: {e}", file=sys.stderr)
        return 2
    ctx = common.Ctx(a.prop, tier, seed)
    try:
        if a.replay:
            payload = json.load(open(a.replay))
            return mod.replay(ctx, payload)
        audit = common.lean_audit(a.prop)
        if ctx.thorough:
            ok, log = common.leanchecker(a.prop)
            audit["leanchecker"] = "ok" if ok else log
            if not ok:
                audit["ok"] = False
                audit.setdefault("bad", []).append("leanchecker: " + log[-300:])
        extra = mod.run(ctx, audit) or {}
        extra["leanchecker"] = audit.get("leanchecker", "not run (quick tier)")
        return common.finish(ctx, audit, extra)
    except common.Infra as e:
        print(f"INFRA-ERROR {a.prop}: {e}", file=sys.stderr)
        return 2
    except Exception:
        traceback.print_exc()
        print(f"INFRA-ERROR {a.prop}: harness exception", file=sys.stderr)
        return 2


if __name__ == "__main__":
    sys.exit(main())
