"""Discrete ADEV programs as DATA: one description -> (a) the JAX function handed to genjax.adev.expectation and
(b) the s-expression handed to the Lean driver command `adev-prog` (Model/AdevProgIO.lean).

Description (nested tuples; Fractions / ints are constants, "th" is the differentiated parameter):

    prog ::= ("ret", term)
           | ("flip", est, term, prog)              est in enum | enum_par | reinforce | mvd
           | ("cat", est, [term, ...], prog)        est in enum_par | reinforce ; terms = unnormalised weights w_j,
                                                    probabilities w_j / sum(w): the implementation gets logits = log w
           | ("branch", i, prog, prog)              jax.lax.cond on the outcome of site i with SITES inside the branches
    term ::= "th" | const | ("sin_th",) | ("o", i) | ("+", t, t) | ("-", t, t) | ("*", t, t) | ("/", t, t) | ("neg", t)
           | ("if", i, t, t)                        jnp.where(outcome i != 0, t, t)
           | ("cond", i, t, t)                      jax.lax.cond(outcome i != 0, ...)   (same model term as "if")
           | ("eq", i, n, t, t)                     jnp.where(outcome i == n, t, t)
("sin_th",) is jnp.sin(theta): the model cannot compute it, it receives the literal dual (sin theta, cos theta).

Sites are numbered from 0 in program order along the path taken; a Bernoulli outcome counts 1 / 0, a categorical
outcome is its index.

Exhaustive exploration of the implementation's internal randomness
------------------------------------------------------------------
Every discrete draw the interpreter makes while computing ONE jvp_estimate goes through one of three module-level
names of genjax.adev, all replaced for the duration of a run by twins that ask an oracle:
  * `flip`        (flip.sample(p) inside FlipMVD / the REINFORCE sampler: the dual-mode draw of a site),
  * `categorical` (the REINFORCE categorical built below),
  * `tfd`         (tfd.Bernoulli(probs=..).sample / tfd.Categorical(logits=..).sample inside every primitive's
                   `sample_with_key`: this is what the PURE continuation `kpure` - flip_mvd's second, forward-sampled run
                   of the rest of the program on the complementary outcome - executes for each later site).
The twins emit `jax.pure_callback`s, so they also work where the draw is staged first and executed later (the
`adev_sample_p` equations of kpure are staged when the program is traced) and under `modular_vmap` (flip_enum_parallel
/ categorical_enum_parallel run `kdual` vectorised over the support: the callback then receives one parameter per lane
and answers lane by lane).  The oracle follows a prefix of decisions and then answers "outcome 0" (True / index 0);
depth-first search over prefixes visits every path exactly once; the weight of a path is the product of the
probabilities of the decisions taken.

Correspondence of outcome paths with the model (`Prog.est`, Model/AdevProg.lean):
  flip_reinforce / REINFORCE cat : [b, decisions of kdual(b)...]                 = bind flipDist/catDist, est (k b)
  flip_mvd                       : [b, decisions of kdual(b)..., decisions of kpure(not b)...]
                                                                                 = bind flipDist, est (k b), run (k !b)
  flip_enum                      : [decisions of kdual(True)..., decisions of kdual(False)...] = est (k T), est (k F)
  flip_enum_parallel / categorical_enum_parallel : the decisions of the lanes interleaved site by site (lane 0, lane 1,
                                   ... of the first later site, then of the next ...) = `sequence` of the lanes' est:
                                   the same product set in a different enumeration order
so the multiset of (probability, value, tangent) over all paths is the model's `est` distribution.
"""
from fractions import Fraction as Fr

import numpy as np

import common
import sexp

FLIP_ESTS = ("enum", "enum_par", "reinforce", "mvd")
CAT_ESTS = ("enum_par", "reinforce")


# ----------------------------------------------------------------------------- description -> driver syntax


def fq(x):
    return Fr(float(x)).limit_denominator(10 ** 9)


def term_sexp(t, theta):
    import math
    if t == "th":
        return "th"
    if isinstance(t, (int, Fr)):
        return Fr(t)
    op = t[0]
    if op == "sin_th":
        return ["dual", fq(math.sin(float(theta))), fq(math.cos(float(theta)))]
    if op == "o":
        return ["o", t[1]]
    if op in ("+", "-", "*", "/"):
        return [op, term_sexp(t[1], theta), term_sexp(t[2], theta)]
    if op == "neg":
        return ["neg", term_sexp(t[1], theta)]
    if op in ("if", "cond"):
        return ["if", t[1], term_sexp(t[2], theta), term_sexp(t[3], theta)]
    if op == "eq":
        return ["eq", t[1], t[2], term_sexp(t[3], theta), term_sexp(t[4], theta)]
    raise ValueError(f"bad term {t!r}")


def prog_sexp(p, theta):
    op = p[0]
    if op == "ret":
        return ["ret", term_sexp(p[1], theta)]
    if op == "flip":
        assert p[1] in FLIP_ESTS
        return ["flip", p[1], term_sexp(p[2], theta), prog_sexp(p[3], theta)]
    if op == "cat":
        assert p[1] in CAT_ESTS
        return ["cat", p[1], [term_sexp(w, theta) for w in p[2]], prog_sexp(p[3], theta)]
    if op == "branch":
        return ["branch", p[1], prog_sexp(p[2], theta), prog_sexp(p[3], theta)]
    raise ValueError(f"bad program {p!r}")


def sites_of(p):
    """estimators along the longest path (for reporting)"""
    op = p[0]
    if op == "ret":
        return []
    if op == "flip":
        return ["flip:" + p[1]] + sites_of(p[3])
    if op == "cat":
        return [f"cat{len(p[2])}:" + p[1]] + sites_of(p[3])
    a, b = sites_of(p[2]), sites_of(p[3])
    return a if len(a) >= len(b) else b


def model_report(prog, theta: Fr):
    """run the Lean model: exact dual, estimator distribution (merged, sorted), mean, mass, path count, guards"""
    line = sexp.dumps(["adev-prog", Fr(theta), prog_sexp(prog, theta)])
    r = sexp.loads(common.driver_run([line])[0])
    if r[0] != "ok":
        raise common.Infra(f"driver rejected {line}: {r}")
    d = {e[0]: e[1:] for e in r[1:]}
    return {
        "exact": (Fr(d["exact"][0]), Fr(d["exact"][1])),
        "mean": (Fr(d["mean"][0]), Fr(d["mean"][1])),
        "mass": Fr(d["mass"][0]),
        "paths": int(d["paths"][0]),
        "guards": d["guards"][0] == "T",
        "sprog": d["sprog"][0] == "T",
        "est": [(Fr(p), Fr(v), Fr(t)) for p, v, t in d["est"]],
        "line": line,
    }


# ----------------------------------------------------------------------------- description -> JAX function


def estimator_table(A):
    """the estimators under test.  flip_enum / flip_mvd / flip_enum_parallel / categorical_enum_parallel are the
    library's objects; the score-function sites are genjax.adev.reinforce(...) (class REINFORCE) over samplers that look
    the module-level `flip` / `categorical` / `tfd` up at call time, so that the oracle twins are seen (the exported
    flip_reinforce binds `flip.sample` at import time)."""
    from genjax.core import distribution
    real_flip, real_cat = A.flip, A.categorical

    def cat_keyful(key, logits, sample_shape=()):
        return A.tfd.Categorical(logits=logits).sample(seed=key, sample_shape=sample_shape)

    flip_rf = distribution(A.reinforce(lambda p: A.flip.sample(p), real_flip.logpdf, lambda key, p, sample_shape=(): A._bernoulli_keyful_sample(key, p, sample_shape=sample_shape)), real_flip.logpdf)
    cat_rf = distribution(A.reinforce(lambda l: A.categorical.sample(l), real_cat.logpdf, cat_keyful), real_cat.logpdf)
    return {"flip": {"enum": A.flip_enum, "enum_par": A.flip_enum_parallel, "mvd": A.flip_mvd, "reinforce": flip_rf},
            "cat": {"enum_par": A.categorical_enum_parallel, "reinforce": cat_rf}}


def _make_ev():
    import jax
    import jax.numpy as jnp

    def ev(t, th, outs):
        if t == "th":
            return th
        if isinstance(t, (int, Fr)):
            return jnp.float32(float(Fr(t)))
        op = t[0]
        if op == "sin_th":
            return jnp.sin(th)
        if op == "o":
            return outs[t[1]].astype(jnp.float32)
        if op == "+":
            return ev(t[1], th, outs) + ev(t[2], th, outs)
        if op == "-":
            return ev(t[1], th, outs) - ev(t[2], th, outs)
        if op == "*":
            return ev(t[1], th, outs) * ev(t[2], th, outs)
        if op == "/":
            return ev(t[1], th, outs) / ev(t[2], th, outs)
        if op == "neg":
            return -ev(t[1], th, outs)
        if op == "if":
            return jnp.where(outs[t[1]] != 0, ev(t[2], th, outs), ev(t[3], th, outs))
        if op == "cond":
            return jax.lax.cond(outs[t[1]] != 0, lambda: ev(t[2], th, outs), lambda: ev(t[3], th, outs))
        if op == "eq":
            return jnp.where(outs[t[1]] == t[2], ev(t[3], th, outs), ev(t[4], th, outs))
        raise ValueError(t)
    return ev


def build(A, prog, table=None):
    """the JAX function f(theta) of a description"""
    import jax
    import jax.numpy as jnp
    table = table or estimator_table(A)
    ev = _make_ev()

    def go(p, th, outs):
        op = p[0]
        if op == "ret":
            return ev(p[1], th, outs)
        if op == "flip":
            b = table["flip"][p[1]](ev(p[2], th, outs))
            return go(p[3], th, outs + [b])
        if op == "cat":
            w = jnp.stack([ev(w_, th, outs) for w_ in p[2]])
            i = table["cat"][p[1]](jnp.log(w))
            return go(p[3], th, outs + [i])
        if op == "branch":
            return jax.lax.cond(outs[p[1]] != 0, lambda: go(p[2], th, outs), lambda: go(p[3], th, outs))
        raise ValueError(p)

    return lambda th: go(prog, th, [])


def expectation_exact(prog, theta: Fr) -> Fr:
    """E[f] at a rational theta as an explicit sum over all site outcomes of (product of the outcome probabilities) x
    (returned value), in exact rational arithmetic - no automatic differentiation, no genjax, no Lean"""
    import math

    def ev(t, outs):
        if t == "th":
            return theta
        if isinstance(t, (int, Fr)):
            return Fr(t)
        op = t[0]
        if op == "sin_th":
            return Fr(math.sin(float(theta)))
        if op == "o":
            return Fr(outs[t[1]])
        if op == "+":
            return ev(t[1], outs) + ev(t[2], outs)
        if op == "-":
            return ev(t[1], outs) - ev(t[2], outs)
        if op == "*":
            return ev(t[1], outs) * ev(t[2], outs)
        if op == "/":
            return ev(t[1], outs) / ev(t[2], outs)
        if op == "neg":
            return -ev(t[1], outs)
        if op in ("if", "cond"):
            return ev(t[2], outs) if outs[t[1]] != 0 else ev(t[3], outs)
        if op == "eq":
            return ev(t[3], outs) if outs[t[1]] == t[2] else ev(t[4], outs)
        raise ValueError(t)

    def go(p, outs):
        op = p[0]
        if op == "ret":
            return ev(p[1], outs)
        if op == "flip":
            q = ev(p[2], outs)
            assert 0 < q < 1, (p[2], theta, q)
            return q * go(p[3], outs + [1]) + (1 - q) * go(p[3], outs + [0])
        if op == "cat":
            ws = [ev(w_, outs) for w_ in p[2]]
            assert all(w_ > 0 for w_ in ws), (p[2], theta, ws)
            return sum((w_ / sum(ws)) * go(p[3], outs + [i]) for i, w_ in enumerate(ws))
        if op == "branch":
            return go(p[2], outs) if outs[p[1]] != 0 else go(p[3], outs)
        raise ValueError(p)
    return go(prog, [])


def brute_force(prog, theta):
    """independent reference for (E[f], d/dtheta E[f]): the exact rational sum above and its symmetric difference
    quotient with h = 2^-20 (E is a rational function of theta away from sin: truncation error ~ h^2)"""
    th, h = Fr(theta), Fr(1, 2 ** 20)
    return float(expectation_exact(prog, th)), float((expectation_exact(prog, th + h) - expectation_exact(prog, th - h)) / (2 * h))


# ----------------------------------------------------------------------------- oracle


class PathOracle:
    """follows `prefix` (a list of outcome indices), then answers 0; records (probabilities, index) of every decision"""

    def __init__(self, prefix):
        self.prefix, self.trace = list(prefix), []

    def decide(self, probs):
        i = len(self.trace)
        o = self.prefix[i] if i < len(self.prefix) else 0
        self.trace.append(([float(x) for x in probs], int(o)))
        return o


_CURRENT = [None]        # the callbacks outlive a run inside cached jaxprs: always dispatch to the current oracle


def _cb_flip(p):
    pa = np.asarray(p, dtype=np.float64)
    out = [_CURRENT[0].decide([x, 1.0 - x]) == 0 for x in pa.reshape(-1)]
    return np.array(out, dtype=np.bool_).reshape(pa.shape)


def _cb_cat(logits):
    la = np.asarray(logits, dtype=np.float64)
    flat = la.reshape(-1, la.shape[-1])
    out = []
    for row in flat:
        e = np.exp(row - row.max())
        out.append(_CURRENT[0].decide(list(e / e.sum())))
    return np.array(out, dtype=np.int32).reshape(la.shape[:-1])


def _ask_flip(p, sample_shape=()):
    import jax
    import jax.numpy as jnp
    p = jnp.asarray(p, dtype=jnp.float32)
    p = jnp.broadcast_to(p, tuple(sample_shape) + p.shape)
    return jax.pure_callback(_cb_flip, jax.ShapeDtypeStruct(p.shape, jnp.bool_), p, vmap_method="broadcast_all")


def _ask_cat(logits, sample_shape=()):
    import jax
    import jax.numpy as jnp
    l = jnp.asarray(logits, dtype=jnp.float32)
    l = jnp.broadcast_to(l, tuple(sample_shape) + l.shape)
    return jax.pure_callback(_cb_cat, jax.ShapeDtypeStruct(l.shape[:-1], jnp.int32), l, vmap_method="broadcast_all")


class _DistTwin:
    def __init__(self, real, ask):
        self.real, self.ask = real, ask

    def sample(self, param, **kw):
        return self.ask(param)

    def logpdf(self, *a, **k):
        return self.real.logpdf(*a, **k)


class _TfdTwin:
    """stands in for genjax.adev.tfd: Bernoulli(probs=) / Categorical(logits=) ask the oracle, everything else is TFP's"""

    class _S:
        def __init__(self, ask, param):
            self.ask, self.param = ask, param

        def sample(self, seed=None, sample_shape=()):
            return self.ask(self.param, sample_shape)

    def __init__(self, real):
        self._real = real

    def Bernoulli(self, probs=None, dtype=None, **kw):
        return _TfdTwin._S(_ask_flip, probs)

    def Categorical(self, logits=None, **kw):
        return _TfdTwin._S(_ask_cat, logits)

    def __getattr__(self, n):
        return getattr(self._real, n)


def enumerate_paths(A, f, theta, limit=6000):
    """every internal outcome path of ONE jvp_estimate of expectation(f) at theta: [(decisions, weight, value, tangent)]"""
    import jax.numpy as jnp
    real = (A.flip, A.categorical, A.tfd)
    results, stack = [], [[]]
    try:
        A.flip, A.categorical, A.tfd = _DistTwin(real[0], _ask_flip), _DistTwin(real[1], _ask_cat), _TfdTwin(real[2])
        while stack:
            prefix = stack.pop()
            orc = PathOracle(prefix)
            _CURRENT[0] = orc
            d = A.expectation(f).jvp_estimate(A.Dual(jnp.float32(theta), jnp.float32(1.0)))
            v, t = float(d.primal), float(d.tangent)
            if [o for _, o in orc.trace[:len(prefix)]] != list(prefix):
                raise RuntimeError("internal decisions are not a function of the earlier decisions")
            w = 1.0
            for ps, o in orc.trace:
                w *= ps[o]
            results.append(([o for _, o in orc.trace], w, v, t))
            for k in range(len(prefix), len(orc.trace)):
                for j in range(1, len(orc.trace[k][0])):
                    stack.append([o for _, o in orc.trace[:k]] + [j])
            if len(results) > limit:
                raise RuntimeError("too many internal outcomes")
    finally:
        A.flip, A.categorical, A.tfd = real
        _CURRENT[0] = None
    return results


# ----------------------------------------------------------------------------- comparison


def match_distribution(paths, est, tol_of):
    """assign every implementation path to the model entry with the nearest (value, tangent); returns
    (problems, per-entry accumulated weight).  Model entries closer to each other than the tolerance are pooled."""
    groups = []          # [(value, tangent, prob)] pooled
    for p, v, t in est:
        v, t, p = float(v), float(t), float(p)
        for g in groups:
            if abs(g[0] - v) <= 2 * tol_of(v, t) and abs(g[1] - t) <= 2 * tol_of(v, t):
                g[2] += p
                break
        else:
            groups.append([v, t, p])
    acc = [0.0] * len(groups)
    problems = []
    for dec, w, v, t in paths:
        best, bd = None, None
        for gi, g in enumerate(groups):
            dist = max(abs(g[0] - v), abs(g[1] - t))
            if bd is None or dist < bd:
                best, bd = gi, dist
        if best is None or bd > tol_of(v, t):
            problems.append(f"path {dec} (weight {w:.6g}) returns ({v:.6g}, {t:.6g}): no such outcome in the model's est"
                            + (f" (nearest ({groups[best][0]:.6g}, {groups[best][1]:.6g}))" if best is not None else ""))
        else:
            acc[best] += w
    for g, a in zip(groups, acc):
        if abs(g[2] - a) > 1e-5 + 1e-4 * g[2]:
            problems.append(f"outcome ({g[0]:.6g}, {g[1]:.6g}): model probability {g[2]:.6g}, implementation {a:.6g}")
    return problems, [(g[0], g[1], g[2], a) for g, a in zip(groups, acc)]
