"""GFI programs: term language shared by the Lean model (Model/Gfi.lean), the real genjax
objects built from it, an independent reference semantics, generators and canonicalisation."""
from __future__ import annotations

import itertools
from fractions import Fraction as Fr

import numpy as np

import probes
import sexp

ARITY = probes.ARITY
ADDRS = ["a", "b", "c", "d", "e"]


# ------------------------------------------------------------------ terms -> s-expressions
def e_sexp(e):
    t = e[0]
    if t == "c":
        return ["c", e[1]]
    if t == "v":
        return ["v", e[1]]
    return [t] + [e_sexp(x) for x in e[1:]]


def gf_sexp(g):
    t = g[0]
    if t == "dist":
        return ["dist", g[1]]
    if t == "fn":
        return ["fn", body_sexp(g[1])]
    if t == "vmap":
        return ["vmap", gf_sexp(g[1]), [bool(b) for b in g[2]], g[3]]
    if t == "scan":
        return ["scan", gf_sexp(g[1]), g[2]]
    if t == "cond":
        return ["cond", gf_sexp(g[1]), gf_sexp(g[2])]
    raise ValueError(g)


def body_sexp(b):
    if b[0] == "ret":
        return ["ret", e_sexp(b[1])]
    return ["call", b[1], gf_sexp(b[2]), [e_sexp(e) for e in b[3]], body_sexp(b[4])]


def val_sexp(v):
    if isinstance(v, (list, tuple)):
        return [val_sexp(x) for x in v]
    return Fr(v)


def cm_sexp(cm):
    if cm is None:
        return "none"
    t = cm[0]
    if t == "leaf":
        return ["leaf", val_sexp(cm[1])]
    if t == "node":
        return ["node"] + [[k, cm_sexp(v)] for k, v in cm[1].items()]
    if t == "lanes":
        return ["lanes"] + [cm_sexp(c) for c in cm[1]]
    raise ValueError(cm)


def parse_val(t):
    if isinstance(t, list):
        return [parse_val(x) for x in t]
    return Fr(t)


def parse_cm(t):
    if t == "none" or t == "err":
        return None
    if t[0] == "leaf":
        return ("leaf", parse_val(t[1]))
    if t[0] == "node":
        return ("node", {kv[0]: parse_cm(kv[1]) for kv in t[1:]})
    if t[0] == "lanes":
        return ("lanes", [parse_cm(c) for c in t[1:]])
    raise ValueError(t)


def leafmap(cm, pre=()):
    """model-form choice map -> {path: value}; lanes contribute their index"""
    if cm is None:
        return {}
    t = cm[0]
    if t == "leaf":
        return {pre: cm[1]}
    if t == "node":
        out = {}
        for k, v in cm[1].items():
            out.update(leafmap(v, pre + (k,)))
        return out
    out = {}
    for i, c in enumerate(cm[1]):
        out.update(leafmap(c, pre + (i,)))
    return out


def flat(v):
    if isinstance(v, (list, tuple)):
        out = []
        for x in v:
            out += flat(x)
        return out
    return [v]


# ------------------------------------------------------------------ building real genjax objects
def ev(e, env, jnp):
    t = e[0]
    if t == "c":
        return jnp.float32(float(e[1]))
    if t == "v":
        return env[e[1]]
    if t == "+":
        return ev(e[1], env, jnp) + ev(e[2], env, jnp)
    if t == "-":
        return ev(e[1], env, jnp) - ev(e[2], env, jnp)
    if t == "*":
        return ev(e[1], env, jnp) * ev(e[2], env, jnp)
    if t == "<":
        return ev(e[1], env, jnp) < ev(e[2], env, jnp)
    if t == "sum":
        return jnp.sum(ev(e[1], env, jnp))
    if t == "pair":
        return (ev(e[1], env, jnp), ev(e[2], env, jnp))
    if t == "fst":
        return ev(e[1], env, jnp)[0]
    if t == "snd":
        return ev(e[1], env, jnp)[1]
    raise ValueError(e)


def build(G, g):
    """real genjax generative function for term g"""
    import jax.numpy as jnp
    dists = probes.make(id(G))
    t = g[0]
    if t == "dist":
        return dists[g[1]]
    if t == "fn":
        body = g[1]
        calls, cterms = [], []
        b = body
        while b[0] == "call":
            calls.append((b[1], build(G, b[2]), b[3]))
            cterms.append(b[2])
            b = b[4]
        ret = b[1]

        def f(*args):
            env = list(args)
            for (addr, callee, es), cterm in zip(calls, cterms):
                vals = [ev(e, env, jnp) for e in es]
                if cterm[0] == "cond" or (cterm[0] == "vmap" and cterm[1][0] == "cond"):
                    # Cond wants a boolean check; the term language encodes it as "non-zero" (Model: Val.truthy)
                    if jnp.asarray(vals[0]).dtype != jnp.bool_:
                        vals[0] = jnp.asarray(vals[0]) != 0
                env.append(callee(*vals) @ addr)
            return ev(ret, env, jnp)

        return G.gen(f)
    if t == "vmap":
        callee = build(G, g[1])
        axes, n = g[2], g[3]
        if any(axes):
            return callee.vmap(in_axes=tuple(0 if a else None for a in axes))
        return callee.vmap(in_axes=None, axis_size=n)
    if t == "scan":
        return G.Scan(build(G, g[1]), length=G.const(g[2])) if hasattr(G, "Scan") else None
    if t == "cond":
        return G.Cond(build(G, g[1]), build(G, g[2]))
    raise ValueError(g)


def to_jnp(v):
    import jax.numpy as jnp
    if isinstance(v, tuple):
        return tuple(to_jnp(x) for x in v)
    if isinstance(v, list):
        return jnp.asarray(np.array([[float(y) for y in flat(x)] if isinstance(x, list) else float(x) for x in v], dtype=np.float32))
    return jnp.float32(float(v))


def cm_to_impl(cm):
    """model-form choice map -> genjax pytree (lanes are stacked)"""
    import jax
    import jax.numpy as jnp
    if cm is None:
        return None
    t = cm[0]
    if t == "leaf":
        return to_jnp(cm[1])
    if t == "node":
        return {k: cm_to_impl(v) for k, v in cm[1].items()}
    subs = [cm_to_impl(c) for c in cm[1]]
    return jax.tree_util.tree_map(lambda *xs: jnp.stack(xs), *subs)


def merged_callee(g):
    """term used to walk the choices of a cond: union of the branch address maps"""
    t, f = g[1], g[2]
    return merge_terms(t, f)


def merge_terms(t, f):
    if t[0] == "fn" and f[0] == "fn":
        ct, cf = callees(t), callees(f)
        out = dict(cf)
        for k, v in ct.items():
            out[k] = merge_terms(v, cf[k]) if k in cf else v
        return ("fnmap", out)
    return t


def callees(g):
    out = {}
    b = g[1]
    while b[0] == "call":
        out[b[1]] = b[2]
        b = b[4]
    return out


def canon(g, x):
    """genjax choices pytree -> model-form choice map, guided by the term"""
    if x is None:
        return None
    t = g[0]
    if t == "dist":
        return ("leaf", to_frac(x))
    if t in ("fn", "fnmap"):
        cs = callees(g) if t == "fn" else g[1]
        out = {}
        for k, v in x.items():
            if v is None:
                continue
            if k not in cs:
                out[k] = ("leaf", to_frac(v))
                continue
            out[k] = canon(cs[k], v)
        return ("node", out)
    if t in ("vmap", "scan"):
        import jax
        leaves = jax.tree_util.tree_leaves(x)
        if not leaves:
            return ("lanes", [])
        n = leaves[0].shape[0]
        return ("lanes", [canon(g[1], jax.tree_util.tree_map(lambda a: a[i], x)) for i in range(n)])
    if t == "cond":
        return canon(merged_callee(g), x)
    raise ValueError(g)


def to_frac(a):
    a = np.asarray(a)
    if a.shape == ():
        return Fr(float(a))
    return [to_frac(x) for x in a]


def retval_flat(r):
    import jax
    out = []
    for leaf in jax.tree_util.tree_leaves(r):
        out += [Fr(float(x)) for x in np.asarray(leaf, dtype=np.float64).reshape(-1)]
    return out


# ------------------------------------------------------------------ reference semantics (the specification)
LP = [
    lambda v, a: -((v - a[0]) * (v - a[0])),
    lambda v, a: -((v - a[0]) * (v - a[0])) + a[1] * v - 1,
    lambda v, a: -(v * v) / 2 - Fr(1, 4),
]
DRAW = [lambda a: a[0] + Fr(1, 2), lambda a: a[0] - a[1] + Fr(1, 4), lambda a: Fr(3, 4)]


def rev(e, env):
    t = e[0]
    if t == "c":
        return Fr(e[1])
    if t == "v":
        return env[e[1]]
    if t == "+":
        return rev(e[1], env) + rev(e[2], env)
    if t == "-":
        return rev(e[1], env) - rev(e[2], env)
    if t == "*":
        return rev(e[1], env) * rev(e[2], env)
    if t == "<":
        return Fr(1) if rev(e[1], env) < rev(e[2], env) else Fr(0)
    if t == "sum":
        return sum(flat(rev(e[1], env)), Fr(0))
    if t == "pair":
        return (rev(e[1], env), rev(e[2], env))
    if t == "fst":
        return rev(e[1], env)[0]
    if t == "snd":
        return rev(e[1], env)[1]
    raise ValueError(e)


def lane_args(axes, args, i):
    return [a[i] if ax else a for ax, a in zip(axes, args)]


class Missing(Exception):
    pass


def ref_run(g, cm, args, pre=(), sites=None, fresh=None, conds=None):
    """Specification semantics: walk program g on choice map cm (model form).
    Returns (retval, sites) where sites = {path: (lp, value)} for the *visible* sites.
    `fresh`: set of paths to draw freshly (probe draw given current parents) instead of reading cm."""
    if sites is None:
        sites = {}
    t = g[0]
    if t == "dist":
        if fresh is not None and pre in fresh:
            v = DRAW[g[1]](args)
        else:
            if cm is None or cm[0] != "leaf":
                raise Missing(pre)
            v = cm[1]
        sites[pre] = (LP[g[1]](v, args), v)
        return v, sites
    if t == "fn":
        env = list(args)
        b = g[1]
        kids = cm[1] if cm is not None and cm[0] == "node" else {}
        while b[0] == "call":
            vals = [rev(e, env) for e in b[3]]
            r, _ = ref_run(b[2], kids.get(b[1]), vals, pre + (b[1],), sites, fresh, conds)
            env.append(r)
            b = b[4]
        return rev(b[1], env), sites
    if t == "vmap":
        lanes = cm[1] if cm is not None and cm[0] == "lanes" else [None] * g[3]
        out = []
        for i in range(g[3]):
            r, _ = ref_run(g[1], lanes[i] if i < len(lanes) else None, lane_args(g[2], args, i), pre + (i,), sites, fresh, conds)
            out.append(r)
        return out, sites
    if t == "scan":
        lanes = cm[1] if cm is not None and cm[0] == "lanes" else [None] * g[2]
        carry, xs = args[0], args[1]
        outs = []
        for i in range(g[2]):
            r, _ = ref_run(g[1], lanes[i] if i < len(lanes) else None, [carry, xs[i]], pre + (i,), sites, fresh, conds)
            carry = r[0]
            outs.append(r[1])
        return (carry, outs), sites
    if t == "cond":
        branch = g[1] if args[0] != 0 else g[2]
        if conds is not None:
            conds[pre] = args[0] != 0
        return ref_run(branch, cm, args[1:], pre, sites, fresh, conds)
    raise ValueError(g)


def all_paths(g, pre=()):
    """every address path of the program (both branches of conds)"""
    t = g[0]
    if t == "dist":
        return {pre}
    if t == "fn":
        out = set()
        for k, c in callees(g).items():
            out |= all_paths(c, pre + (k,))
        return out
    if t == "vmap":
        return set().union(*[all_paths(g[1], pre + (i,)) for i in range(g[3])]) if g[3] else set()
    if t == "scan":
        return set().union(*[all_paths(g[1], pre + (i,)) for i in range(g[2])]) if g[2] else set()
    if t == "cond":
        return all_paths(g[1], pre) | all_paths(g[2], pre)
    raise ValueError(g)


def cm_from_leafmap(g, lm, pre=()):
    """model-form choice map holding the entries of lm ({path: value}) that belong to g; None if empty"""
    t = g[0]
    if t == "dist":
        return ("leaf", lm[pre]) if pre in lm else None
    if t in ("fn", "fnmap"):
        cs = callees(g) if t == "fn" else g[1]
        out = {}
        for k, c in cs.items():
            sub = cm_from_leafmap(c, lm, pre + (k,))
            if sub is not None:
                out[k] = sub
        return ("node", out) if out else None
    if t in ("vmap", "scan"):
        n = g[3] if t == "vmap" else g[2]
        subs = [cm_from_leafmap(g[1], lm, pre + (i,)) for i in range(n)]
        if all(s is None for s in subs):
            return None
        if any(s is None for s in subs):
            raise ValueError("ragged lanes")
        return ("lanes", subs)
    if t == "cond":
        return cm_from_leafmap(merged_callee(g), lm, pre)
    raise ValueError(g)


def strip_lanes(path):
    return tuple(p for p in path if not isinstance(p, int))


# ------------------------------------------------------------------ generator
class Gen:
    """random typed programs. Types: 'S' scalar, 'V' vector of length N, 'P' pair (S, V) (scan retval)."""

    def __init__(self, rng, depth=2, N=None, allow=("vmap", "scan", "cond", "fn")):
        self.rng = rng
        self.depth = depth
        self.N = N or rng.choice([2, 3])
        self.allow = allow

    def q(self, lo=-6, hi=6):
        return Fr(self.rng.randint(lo, hi), 4)

    def sexpr(self, env_types, depth=2):
        """scalar expression over env"""
        r = self.rng
        S = [i for i, t in enumerate(env_types) if t == "S"]
        V = [i for i, t in enumerate(env_types) if t in ("V", "W")]
        P = [i for i, t in enumerate(env_types) if t == "P"]
        choices = ["c"]
        if S:
            choices += ["v"] * 4
        if depth > 0:
            choices += ["+", "-", "*h"]
            if V:
                choices.append("sum")
            if P:
                choices += ["fst", "sumsnd"]
        k = r.choice(choices)
        if k == "c":
            return ("c", self.q(-4, 4))
        if k == "v":
            return ("v", r.choice(S))
        if k in "+-":
            return (k, self.sexpr(env_types, depth - 1), self.sexpr(env_types, depth - 1))
        if k == "*h":
            return ("*", ("c", r.choice([Fr(1, 2), Fr(-1), Fr(2), Fr(-1, 2)])), self.sexpr(env_types, depth - 1))
        if k == "sum":
            return ("*", ("c", Fr(1, 2)), ("sum", ("v", r.choice(V))))
        if k == "fst":
            return ("fst", ("v", r.choice(P)))
        if k == "sumsnd":
            return ("*", ("c", Fr(1, 2)), ("sum", ("snd", ("v", r.choice(P)))))
        raise AssertionError

    def dist(self):
        return ("dist", self.rng.choice([0, 0, 1, 1, 2]))

    def scalar_gf(self, nparams, depth, addrs=None):
        """a GF taking nparams scalars and returning a scalar: dist (if arity matches) or fn"""
        r = self.rng
        cands = [d for d in range(3) if ARITY[d] == nparams]
        if cands and (depth <= 0 or r.random() < 0.35):
            return ("dist", r.choice(cands))
        return self.fn(["S"] * nparams, depth, ret="S", addrs=addrs)

    def fn(self, param_types, depth, ret="S", addrs=None, ncalls=None):
        r = self.rng
        env = list(param_types)
        ncalls = ncalls or r.randint(1, 3)
        addrs = list(addrs) if addrs else r.sample(ADDRS, ncalls)
        ncalls = min(ncalls, len(addrs))
        calls = []
        for addr in addrs[:ncalls]:
            kinds = ["dist"] * 3
            if depth > 0:
                if "fn" in self.allow:
                    kinds += ["fn"] * 2
                if "vmap" in self.allow:
                    kinds += ["vmap"] * 2
                if "scan" in self.allow and "V" in env:
                    kinds += ["scan"] * 2
                if "cond" in self.allow:
                    kinds += ["cond"] * 2
            k = r.choice(kinds)
            if k == "dist":
                d = self.dist()
                calls.append((addr, d, [self.sexpr(env) for _ in range(ARITY[d[1]])], "S"))
            elif k == "fn":
                np_ = r.randint(1, 2)
                calls.append((addr, self.fn(["S"] * np_, depth - 1), [self.sexpr(env) for _ in range(np_)], "S"))
            elif k == "vmap" and r.random() < 0.2:
                # Vmap applied directly to a Vmap (2-D grid of sites): inner repeat, outer map
                d = self.dist()
                np_ = ARITY[d[1]]
                inner = ("vmap", d, tuple([False] * np_), r.choice([2, 3]))
                V = [i for i, t in enumerate(env) if t == "V"]
                axes, es = [], []
                for _ in range(np_):
                    if V and r.random() < 0.6:
                        axes.append(True)
                        es.append(("v", r.choice(V)))
                    else:
                        axes.append(False)
                        es.append(self.sexpr(env))
                calls.append((addr, ("vmap", inner, tuple(axes), self.N), es, "W"))
            elif k == "vmap":
                np_ = r.randint(1, 2)
                callee = self.scalar_gf(np_, depth - 1)
                V = [i for i, t in enumerate(env) if t == "V"]
                axes, es = [], []
                for _ in range(np_):
                    if V and r.random() < 0.6:
                        axes.append(True)
                        es.append(("v", r.choice(V)))
                    else:
                        axes.append(False)
                        es.append(self.sexpr(env))
                calls.append((addr, ("vmap", callee, tuple(axes), self.N), es, "V"))
            elif k == "scan":
                V = [i for i, t in enumerate(env) if t == "V"]
                callee = self.fn(["S", "S"], depth - 1, ret="PS")
                calls.append((addr, ("scan", callee, self.N), [self.sexpr(env), ("v", r.choice(V))], "P"))
            elif k == "cond":
                np_ = r.randint(1, 2)
                tb = self.scalar_gf(np_, depth - 1)
                if tb[0] == "fn" and r.random() < 0.8:
                    fb = self.mutate(tb)
                else:
                    # independent second branch: addresses disjoint from the first branch's
                    free = [a for a in ADDRS + ["f", "g", "h"] if tb[0] != "fn" or a not in callees(tb)]
                    fb = self.scalar_gf(np_, 0) if tb[0] == "dist" else self.fn(["S"] * np_, 0, addrs=r.sample(free, 3))
                check = ("<", self.sexpr(env, 1), self.sexpr(env, 1))
                calls.append((addr, ("cond", tb, fb), [check] + [self.sexpr(env) for _ in range(np_)], "S"))
            env.append(calls[-1][3])
        if ret == "S":
            rete = self.sexpr(env)
        else:  # pair of scalars (scan body)
            rete = ("pair", self.sexpr(env), self.sexpr(env))
        body = ("ret", rete)
        for addr, g, es, _ in reversed(calls):
            body = ("call", addr, g, es, body)
        return ("fn", body)

    def mutate(self, g):
        """structurally identical copy with other constants / same-arity distributions (second Cond branch)"""
        r = self.rng
        t = g[0]
        if t == "dist":
            c = [d for d in range(3) if ARITY[d] == ARITY[g[1]]]
            return ("dist", r.choice(c))
        if t == "fn":
            return ("fn", self._mut_body(g[1]))
        if t == "vmap":
            return ("vmap", self.mutate(g[1]), g[2], g[3])
        if t == "scan":
            return ("scan", self.mutate(g[1]), g[2])
        if t == "cond":
            return ("cond", self.mutate(g[1]), self.mutate(g[2]))
        raise ValueError(g)

    def _mut_body(self, b):
        if b[0] == "ret":
            return ("ret", self._mut_expr(b[1]))
        return ("call", b[1], self.mutate(b[2]), [self._mut_expr(e) for e in b[3]], self._mut_body(b[4]))

    def _mut_expr(self, e):
        if e[0] == "c":
            return ("c", self.q(-4, 4)) if self.rng.random() < 0.5 else e
        if e[0] == "v":
            return e
        if e[0] == "*" and e[1][0] == "c":
            return ("*", e[1], self._mut_expr(e[2]))
        return (e[0],) + tuple(self._mut_expr(x) for x in e[1:])

    def program(self):
        """top-level fn with params (S, S, V)"""
        ptypes = ["S", "S", "V"]
        g = self.fn(ptypes, self.depth, ncalls=self.rng.randint(2, 4))
        return g, ptypes

    def args(self, ptypes):
        return [self.q() if t == "S" else [self.q() for _ in range(self.N)] for t in ptypes]

    def values(self, g, paths=None):
        """random leaf values for the given paths (default: all)"""
        paths = all_paths(g) if paths is None else paths
        return {p: self.q() for p in sorted(paths, key=str)}


def subset_structural(rng, g, mode):
    """a set of *structural* addresses (lane indices stripped) to constrain: 'all' | 'none' | 'some'"""
    spaths = sorted({strip_lanes(p) for p in all_paths(g)})
    if mode == "all":
        return set(spaths)
    if mode == "none":
        return set()
    k = rng.randint(1, max(1, len(spaths) - 1))
    return set(rng.sample(spaths, min(k, len(spaths))))


def has_kind(g, kind, direct_under=None):
    t = g[0]
    if t == kind:
        return True
    if t == "fn":
        return any(has_kind(c, kind) for c in callees(g).values())
    if t in ("vmap", "scan"):
        return has_kind(g[1], kind)
    if t == "cond":
        return has_kind(g[1], kind) or has_kind(g[2], kind)
    return False


def has_vmap_of_cond(g):
    t = g[0]
    if t in ("vmap", "scan") and g[1][0] == "cond":
        return True
    if t == "fn":
        return any(has_vmap_of_cond(c) for c in callees(g).values())
    if t in ("vmap", "scan"):
        return has_vmap_of_cond(g[1])
    if t == "cond":
        return has_vmap_of_cond(g[1]) or has_vmap_of_cond(g[2])
    return False


def size(g):
    return len(all_paths(g))
