"""Tie of lean/GenjaxModel/Model/Interp.lean (the fall-through of genjax's Jaxpr interpreters) to the code.

A random nesting of higher-order constructs around sites and plain equations is built as a JAX function, STAGED BY JAX, and the real
Jaxpr is TRANSLATED into the model's term language (`prim`, `(site n)`, `(call kind (body))`) with the interpreter's kind table
(which primitives it interprets / evaluates in place / re-binds).  The driver then says, for that Jaxpr,
  * per top-level higher-order equation whether the walker finds a site in it   - compared with the code's own walker
    (pjax._nested_sample_params / state._holds_state / adev._holds_sample_site) called on the very same equation,
  * whether the guarded interpreter raises, which sites it handles and which escape the unguarded one
    - compared with what the real interpreter does (raises the lowering error / result depends on the key / lanes differ /
      names collected / exact expectation).
Used by C14 (seed), C08 (modular_vmap), C19 (state), C11 (ADEV).
"""
from __future__ import annotations

import json

import numpy as np

import common
import impl
import sexp

WRAPS = ["jit", "checkpoint", "custom_jvp", "cond", "scan", "while"]
# kind tables: primitive name -> kind; primitives with sub-jaxprs that are not listed are re-bound
KINDS = {
    "seed": {"cond": "interp", "scan": "interp"},
    "mvmap": {"cond": "interp", "scan": "interp"},
    "state": {"scan": "interp", "pjit": "inline", "jit": "inline", "remat2": "inline", "checkpoint": "inline"},
    "adev": {"cond": "interp", "pjit": "inline", "jit": "inline", "remat2": "inline", "checkpoint": "inline"},
}


def gen_ast(rng, depth, wraps):
    n = rng.randint(1, 3)
    out = []
    for _ in range(n):
        r = rng.random()
        if r < 0.3:
            out.append(("prim",))
        elif r < 0.6 or depth == 0:
            out.append(("site",))
        else:
            out.append(("wrap", rng.choice(wraps), gen_ast(rng, depth - 1, wraps)))
    return out


def n_sites(ast):
    return sum(1 if s[0] == "site" else (n_sites(s[2]) if s[0] == "wrap" else 0) for s in ast)


def build(ast, site_fn):
    """f(x) running the statements; site_fn(x, counter) binds one site and returns a scalar"""
    import jax
    import jax.numpy as jnp
    counter = [0]

    def run(stmts, x):
        acc = x * 0.0
        for s in stmts:
            if s[0] == "prim":
                acc = acc + jnp.sin(x)
            elif s[0] == "site":
                counter[0] += 1
                acc = acc + site_fn(x, counter[0])
            else:
                body = (lambda stmts: (lambda y: run(stmts, y)))(s[2])   # no default arguments: custom_jvp would pass them as operands
                k = s[1]
                if k == "jit":
                    acc = acc + jax.jit(body)(x)
                elif k == "checkpoint":
                    acc = acc + jax.checkpoint(body)(x)
                elif k == "custom_jvp":
                    f = jax.custom_jvp(body)
                    f.defjvp((lambda b: (lambda p, t: jax.jvp(b, p, t)))(body))
                    acc = acc + f(x)
                elif k == "cond":
                    acc = acc + jax.lax.cond(x > -1e9, body, lambda y: y * 0.0, x)
                elif k == "scan":
                    acc = acc + jax.lax.scan(lambda c, t: (c, body(x)), 0.0, jnp.arange(2))[1][0]
                elif k == "while":
                    acc = acc + jax.lax.while_loop(lambda c: c[0] < 1, lambda c: (c[0] + 1, body(x)), (0, x * 0.0))[1]
        return acc

    def f(x):
        counter[0] = 0
        return run(ast, x)
    return f


def sub_jaxprs(params):
    from jax.extend.core import ClosedJaxpr, Jaxpr
    out = []
    stack = [params[k] for k in sorted(params, reverse=True)]
    while stack:
        v = stack.pop()
        if isinstance(v, (tuple, list)):
            stack.extend(reversed(v))
        elif isinstance(v, ClosedJaxpr):
            out.append(v.jaxpr)
        elif isinstance(v, Jaxpr):
            out.append(v)
    return out


def translate(jaxpr, site_prims, kinds, ids):
    """real Jaxpr -> model term (python lists for sexp.dumps); `ids` collects per-site information in traversal order"""
    from genjax.pjax import PPPrimitive
    out = []
    for eqn in jaxpr.eqns:
        prim, inner = PPPrimitive.unwrap(eqn.primitive)
        if prim in site_prims:
            ids.append({**inner, **{k: v for k, v in eqn.params.items() if k == "name"}})
            out.append(["site", str(len(ids))])
            continue
        subs = sub_jaxprs(eqn.params)
        if not subs:
            out.append("prim")
            continue
        body = []
        for sj in subs:
            body += translate(sj, site_prims, kinds, ids)
        out.append(["call", kinds.get(prim.name, "rebind"), body])
    return out


def model(term):
    r = sexp.loads(common.driver_run([sexp.dumps(["interp", term])])[0])
    if r[0] != "ok":
        raise common.Infra(f"driver rejected the translated jaxpr: {r}")
    return {"raises": r[1][0] == "raises", "handled": [int(i) for i in (r[1][1] if r[1][0] == "handled" else [])],
            "old_handled": [int(i) for i in r[2][1]], "old_escaped": [int(i) for i in r[2][2]],
            "top_holds": [b == "T" for b in r[3]], "sites": [int(i) for i in r[4]],
            "site_inline": r[5] == "T", "inlined_sites": [int(i) for i in r[6]], "inlined_site_inline": r[7] == "T"}


def walker_tie(ctx, which, jaxpr, m, walker, case):
    """the code's own sub-jaxpr walker on every top-level higher-order equation vs the model's `holds`"""
    tops = [e for e in jaxpr.eqns if sub_jaxprs(e.params)]
    got = [bool(walker(e.params)) for e in tops]
    if got != m["top_holds"]:
        ctx.correspondence_break(f"Interp.holds vs the {which} walker", f"the code's walker says {got} for the top-level higher-order equations "
                                 f"{[e.primitive.name for e in tops]}, the model {m['top_holds']}", case)
    ctx.count(f"interp:{which}:walker-eqns", len(tops))


def _stage(f, x):
    import jax
    return jax.make_jaxpr(f)(x).jaxpr


def run_seed(ctx, n):
    """C14: seed raises the lowering error exactly when the guarded model interpreter raises; otherwise its result is a function of the key"""
    G = impl.load()
    import jax.numpy as jnp
    import jax.random as jr
    import genjax.pjax as pjax
    from genjax.pjax import LoweringSamplePrimitiveToMLIRException
    x = jnp.float32(0.5)
    walker = getattr(pjax, "_nested_sample_params", None)
    for i in range(n):
        ast = gen_ast(ctx.rng, 2 + (i % 2), WRAPS)
        f = build(ast, lambda y, c: G.normal.sample(y * 0.0, 1.0))
        case = {"kind": "interp-seed", "ast": json.dumps(ast)}
        try:
            jaxpr = _stage(f, x)
        except Exception as ex:
            raise common.Infra(f"staging a generated program failed: {type(ex).__name__}: {ex}")
        ids = []
        m = model(translate(jaxpr, (pjax.sample_p, pjax.adev_sample_p), KINDS["seed"], ids))
        if walker is not None:
            walker_tie(ctx, "Seed", jaxpr, m, lambda p: walker(p) is not None, case)
        else:
            ctx.correspondence_break("Interp.holds vs the Seed walker", "pjax._nested_sample_params no longer exists", case)
        try:
            a = float(G.seed(build(ast, lambda y, c: G.normal.sample(y * 0.0, 1.0)))(jr.key(1), x))
            c = float(G.seed(build(ast, lambda y, c: G.normal.sample(y * 0.0, 1.0)))(jr.key(2), x))
            got = "key-function" if a != c else ("no-site" if not m["sites"] else "key-ignored")
        except LoweringSamplePrimitiveToMLIRException:
            impl.reset_handlers()
            got = "raises"
        case.update({"outcome": got, "model": "raises" if m["raises"] else "handled", "sites": len(m["sites"])})
        if got == "key-ignored" or (got == "key-function" and m["raises"]):
            # a site escaped: the result was computed although a re-bound equation holds a site
            ctx.property_failure(None, f"seed returned a value ('{got}') for a program in which a site sits inside an equation seed does not interpret "
                                 f"(model: escaped sites {m['old_escaped']}) - the property requires the lowering error", case)
        elif (got == "raises") != m["raises"]:
            ctx.correspondence_break("Interp.run vs seed", f"model says {'raises' if m['raises'] else 'handles all sites'}, seed: {got}", case)
        ctx.case(sample=case if i == 0 else None, nontrivial_key=("interp-seed", json.dumps(ast)) if m["sites"] else None)
        ctx.count("interp:seed:" + got)


def run_mvmap(ctx, n):
    """C08: modular_vmap raises exactly when the guarded model interpreter raises; otherwise every lane has its own draws"""
    G = impl.load()
    import jax.numpy as jnp
    import jax.random as jr
    import genjax.pjax as pjax
    x = jnp.float32(0.5)
    walker = getattr(pjax, "_nested_sample_params", None)
    for i in range(n):
        ast = gen_ast(ctx.rng, 2, WRAPS)
        mk = lambda: build(ast, lambda y, c: G.normal.sample(0.0, 1.0) + 0.0 * y)      # noqa: E731   lane-independent parameters
        case = {"kind": "interp-mvmap", "ast": json.dumps(ast)}
        jaxpr = _stage(mk(), x)
        ids = []
        m = model(translate(jaxpr, (pjax.sample_p, pjax.adev_sample_p), KINDS["mvmap"], ids))
        if walker is not None:
            walker_tie(ctx, "ModularVmap", jaxpr, m, lambda p: walker(p) is not None, case)
        try:
            g = mk()
            out = np.asarray(G.seed(G.modular_vmap(lambda t: g(x) + 0.0 * t, in_axes=(0,)))(jr.key(3), jnp.zeros(3)))
            got = "no-site" if not m["sites"] else ("independent" if len(set(out.tolist())) == out.size else "shared")
        except Exception as ex:
            impl.reset_handlers()
            got = "raises:" + type(ex).__name__
        case.update({"outcome": got, "model": "raises" if m["raises"] else "handled", "sites": len(m["sites"])})
        if got == "shared":
            ctx.property_failure(None, f"modular_vmap: the lanes share a draw for a program whose sites sit inside {[s for s in WRAPS if s in json.dumps(ast)]} "
                                 f"(model: escaped sites {m['old_escaped']})", case)
        elif got.startswith("raises") != m["raises"]:
            ctx.correspondence_break("Interp.run vs modular_vmap", f"model says {'raises' if m['raises'] else 'handles all sites'}, modular_vmap: {got}", case)
        ctx.case(sample=case if i == 0 else None, nontrivial_key=("interp-mvmap", json.dumps(ast)) if m["sites"] else None)
        ctx.count("interp:mvmap:" + got.split(":")[0])


def run_state(ctx, n):
    """C19: the names state() collects are the sites the (unguarded) model interpreter handles; the escaped ones are the open finding"""
    import sys
    impl.load()
    import jax.numpy as jnp
    from genjax.state import save, state
    gstate = sys.modules["genjax.state"]       # `genjax.state` the attribute is the function
    x = jnp.float32(0.5)
    walker = getattr(gstate, "_holds_state", None)
    site_prims = (gstate.state_p,)
    for i in range(n):
        ast = gen_ast(ctx.rng, 2, WRAPS)
        mk = lambda: build(ast, lambda y, c: save(**{f"s{c}": y * float(c)})[f"s{c}"])      # noqa: E731
        case = {"kind": "interp-state", "ast": json.dumps(ast)}
        jaxpr = _stage(mk(), x)
        ids = []
        m = model(translate(jaxpr, site_prims, KINDS["state"], ids))
        names = [d.get("name") for d in ids]
        if walker is not None:
            walker_tie(ctx, "State", jaxpr, m, walker, case)
        else:
            ctx.correspondence_break("Interp.holds vs the State walker", "state._holds_state no longer exists", case)
        try:
            res, col = state(mk())(x)
        except Exception as ex:
            impl.reset_handlers()
            ctx.property_failure(None, f"state(f) raised {type(ex).__name__}: {str(ex)[:120]}", case)
            continue
        got = sorted(col)
        want_all = sorted(set(names))
        predicted = sorted({names[j - 1] for j in m["old_handled"]})
        case.update({"collected": got, "saved": want_all, "model_handled": predicted})
        if abs(float(res) - float(mk()(x))) > 1e-5:
            ctx.property_failure(None, "state(f) changed the result", case)
        if got != want_all:
            ctx.property_failure("state-dropped-in-uninterpreted-call", f"saved names {want_all}, collected {got}: saves inside re-bound equations are dropped", case,
                                 matches_asis=got == predicted)
        elif got != predicted:
            ctx.correspondence_break("Interp.runOld vs state", f"model predicts {predicted}, state collected {got}", case)
        ctx.case(sample=case if i == 0 else None, nontrivial_key=("interp-state", json.dumps(ast)) if names else None)
        ctx.count("interp:state:" + ("all" if got == want_all else "dropped"))


def run_adev(ctx, n):
    """C11: when the model says every site reaches the interpreter, a program of flip_enum sites has its exact expectation and derivative"""
    impl.load()
    import jax.numpy as jnp
    import genjax.adev as A
    import genjax.pjax as pjax
    p = 0.3
    x = jnp.float32(p)
    walker = getattr(A, "_holds_sample_site", None)
    for i in range(n):
        ast = gen_ast(ctx.rng, 2, ["jit", "checkpoint", "cond", "jit", "scan"] if i % 3 == 0 else ["jit", "checkpoint", "cond"])
        mk = lambda: build(ast, lambda y, c: jnp.where(A.flip_enum(y), 3.0, 1.0) * y * float(c))      # noqa: E731
        case = {"kind": "interp-adev", "ast": json.dumps(ast)}
        jaxpr = _stage(mk(), x)
        ids = []
        m = model(translate(jaxpr, (pjax.adev_sample_p, pjax.sample_p), KINDS["adev"], ids))
        if walker is not None:
            walker_tie(ctx, "ADEV", jaxpr, m, walker, case)
        else:
            ctx.correspondence_break("Interp.holds vs the ADEV walker", "adev._holds_sample_site no longer exists", case)
        # the real pre-pass (fix d3d169e) on the real jaxpr vs the model's `inlineCalls`: afterwards no inline-kind call in front of a
        # site where the interpreter looks, and the same number of sites
        prepass = getattr(A, "_eval_inlining_site_calls", None)
        if prepass is not None:
            import jax
            cj = jax.make_jaxpr(mk())(x)
            post = jax.make_jaxpr(lambda *a: prepass(cj.jaxpr, cj.consts, *a))(x).jaxpr
            # the pre-pass works on ONE jaxpr (cond branches get their own pass when forward_mode enters them), so for this comparison
            # cond is not entered: kind table with the call-like primitives only
            kp = {k: v for k, v in KINDS["adev"].items() if v == "inline"}
            mp = model(translate(cj.jaxpr, (pjax.adev_sample_p, pjax.sample_p), kp, []))
            m2 = model(translate(post, (pjax.adev_sample_p, pjax.sample_p), kp, []))
            if m2["site_inline"] != mp["inlined_site_inline"] or len(m2["sites"]) != len(mp["inlined_sites"]):
                ctx.correspondence_break("Interp.inlineCalls vs the ADEV pre-pass", f"after the real pre-pass: inline call in front of a site = {m2['site_inline']}, "
                                         f"{len(m2['sites'])} sites; model: {mp['inlined_site_inline']}, {len(mp['inlined_sites'])} sites", case)
            if (m2["old_handled"], m2["old_escaped"]) != (mp["old_handled"], mp["old_escaped"]) and len(m2["sites"]) == len(mp["sites"]):
                ctx.correspondence_break("Interp.inlineCalls_runOld vs the ADEV pre-pass", "the pre-pass changed which sites reach the interpreter", case)
            ctx.count("interp:adev:prepass")
        else:
            ctx.correspondence_break("Interp.inlineCalls vs the ADEV pre-pass", "adev._eval_inlining_site_calls no longer exists", case)
        # exact: each site c contributes E[where(b,3,1) * p * c] = c (3 p^2 + (1-p) p); a scan body runs its sites once per
        # iteration but only iteration 0 is added; prim adds sin p
        f_exact = lambda q: _exact(ast, q)     # noqa: E731
        ev = f_exact(p)
        eg = (f_exact(p + 1e-4) - f_exact(p - 1e-4)) / 2e-4
        try:
            e = A.expectation(mk())
            got_v, got_g = float(e.estimate(x)), float(e.grad_estimate(x))
        except Exception as ex:
            impl.reset_handlers()
            ctx.property_failure("adev-site-in-uninterpreted-call" if m["old_escaped"] else None,
                                 f"ADEV raised {type(ex).__name__}: {str(ex)[:120]}", case, matches_asis=bool(m["old_escaped"]))
            continue
        case.update({"estimate": got_v, "grad": got_g, "exact": [ev, eg], "model_escaped": m["old_escaped"]})
        exact_ok = abs(got_v - ev) < 1e-4 * (1 + abs(ev)) and abs(got_g - eg) < 2e-3 * (1 + abs(eg))
        if not exact_ok:
            ctx.property_failure("adev-site-in-uninterpreted-call" if m["old_escaped"] else None,
                                 f"flip_enum sites (zero variance): estimate / grad ({got_v:.5f}, {got_g:.5f}) != exact ({ev:.5f}, {eg:.5f})"
                                 + (f"; the model says sites {m['old_escaped']} never reach the interpreter" if m["old_escaped"] else ""),
                                 case, matches_asis=bool(m["old_escaped"]))
        ctx.case(sample=case if i == 0 else None, nontrivial_key=("interp-adev", json.dumps(ast)) if ids else None)
        ctx.count("interp:adev:" + ("exact" if exact_ok else "inexact"))


def _exact(ast, p):
    import math
    counter = [0]

    def run(stmts):
        acc = 0.0
        for s in stmts:
            if s[0] == "prim":
                acc += math.sin(p)
            elif s[0] == "site":
                counter[0] += 1
                acc += counter[0] * (3 * p * p + (1 - p) * p)
            else:
                acc += run(s[2])
        return acc
    return run(ast)
