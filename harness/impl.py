"""Load the implementation under test: compat build of /repo's current working tree."""
import os
import sys
import warnings

import compat
import common

_loaded = None


def load():
    """returns the genjax module of the compat build (falls back to the unmodified tree)."""
    global _loaded
    if _loaded is not None:
        return _loaded
    warnings.filterwarnings("ignore")
    os.environ.setdefault("JAX_PLATFORMS", "cpu")
    try:
        root = compat.activate(common.REPO)
        import genjax  # noqa
        assert genjax.__file__.startswith(root), genjax.__file__
    except Exception as e:  # anchor missing / import failure: try the plain tree
        sys.path[:] = [p for p in sys.path if "genjax_compat_" not in p]
        for k in [k for k in sys.modules if k == "genjax" or k.startswith("genjax.")]:
            del sys.modules[k]
        sys.path.insert(0, os.path.join(common.REPO, "src"))
        try:
            import genjax  # noqa
        except Exception as e2:
            raise common.Infra(f"implementation cannot be imported: compat: {e!r}; plain: {e2!r}")
    _loaded = genjax
    return genjax


def reset_handlers():
    """an exception inside a @gen body leaves genjax.core.handler_stack dirty"""
    import genjax.core as core
    core.handler_stack.clear()
