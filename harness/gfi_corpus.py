"""Structural corpus for C01-C05: hand-built programs covering every nesting of two combinators
(and the three-level nestings behind past misses), run FIRST by every GFI check with a fixed op script per
property.  Random generation (gfi_props) samples these shapes only with some probability; a regression that
needs one particular nesting (Cond over a nested @gen at a shared address, Scan fed by an upstream choice,
Cond inside a Scan step whose check depends on the carry ...) must not depend on the seed.

Terms are in the language of gfi.py / Model/Gfi.lean.  Top-level parameters: (S, S, V) = env indices 0, 1, 2.
"""
from __future__ import annotations

from fractions import Fraction as Fr

import gfi

N = 2   # lanes / steps (kept small: every op is traced by JAX)


def c(q):
    return ("c", Fr(q))


def v(i):
    return ("v", i)


def add(a, b):
    return ("+", a, b)


def sub(a, b):
    return ("-", a, b)


def half(a):
    return ("*", ("c", Fr(1, 2)), a)


def lt(a, b):
    return ("<", a, b)


D0, D1, D2 = ("dist", 0), ("dist", 1), ("dist", 2)


def fn(calls, ret):
    body = ("ret", ret)
    for addr, g, es in reversed(calls):
        body = ("call", addr, g, list(es), body)
    return ("fn", body)


# ---- callees taking one scalar -------------------------------------------------------------------
def leafy(k1=0, k2=1):
    """fn(S): two sites, the second depends on the first"""
    return fn([("x", D0, [add(v(0), c(Fr(k1, 4)))]), ("y", D1, [v(1), c(Fr(k2, 4))])], add(v(1), half(v(2))))


def nested(k=0):
    """fn(S) calling a nested fn at address u, then a site w"""
    return fn([("u", leafy(k, k + 1), [add(v(0), c(Fr(k, 2)))]), ("w", D0, [v(1)])], sub(v(2), half(v(1))))


def step(k=0):
    """scan body fn(carry S, x S) -> (carry', out)"""
    return fn([("x", D1, [v(0), v(1)]), ("y", D0, [add(v(2), c(Fr(k, 4)))])], ("pair", add(half(v(2)), v(0)), v(3)))


def step_cond():
    """scan body whose Cond check depends on the carry"""
    cb = ("cond", leafy(1, 2), leafy(-1, 3))
    return fn([("b", cb, [lt(v(0), v(1)), v(0)]), ("y", D0, [v(2)])], ("pair", half(add(v(2), v(1))), v(3)))


def step_vmap():
    """scan body with a repeat (Vmap without mapped args) inside"""
    return fn([("r", ("vmap", D0, (False,), N), [v(0)]), ("y", D1, [half(("sum", v(2))), v(1)])], ("pair", v(3), half(("sum", v(2)))))


def programs():
    """(name, term, args variants). args[0] < 0 makes top-level Cond checks true."""
    P = []
    neg = [Fr(-1, 2), Fr(3, 4), [Fr(1, 4), Fr(-3, 4)]]
    pos = [Fr(1, 2), Fr(-1, 4), [Fr(-1, 2), Fr(5, 4)]]
    chk = lt(v(0), c(0))
    # 1. Cond over branches that call a nested @gen at a SHARED address (+ a flat shared site)
    P.append(("cond-nested-shared",
              fn([("k", ("cond", nested(0), nested(1)), [chk, v(1)]), ("z", D0, [v(3)])], add(v(3), v(4))), [neg, pos]))
    # 2. Cond whose branches have DIFFERENT address sets (one flat, one nested)
    other = fn([("p", D0, [v(0)]), ("q", D2, [])], add(v(1), v(2)))
    P.append(("cond-disjoint-addresses",
              fn([("k", ("cond", nested(0), other), [chk, v(1)]), ("z", D1, [v(3), v(0)])], v(4)), [neg, pos]))
    # 3. Cond of Cond (inner check on the second argument)
    inner = fn([("i", ("cond", leafy(0, 1), leafy(2, -1)), [lt(v(0), c(Fr(1, 4))), v(0)])], v(1))
    P.append(("cond-of-cond",
              fn([("k", ("cond", inner, leafy(1, 1)), [chk, v(1)]), ("z", D0, [v(3)])], v(4)), [neg, pos]))
    # 4. Scan fed by an upstream choice (init carry) and followed by a site depending on the final carry
    P.append(("scan-upstream-carry",
              fn([("t", D0, [v(0)]), ("s", ("scan", step(1), N), [v(3), v(2)]), ("o", D0, [("fst", v(4))])],
                 add(("fst", v(4)), half(("sum", ("snd", v(4)))))), [neg, pos]))
    # 5. Cond inside a Scan step, check depends on the carry
    P.append(("scan-of-cond",
              fn([("t", D0, [v(1)]), ("s", ("scan", step_cond(), N), [v(3), v(2)])], ("fst", v(4))), [neg, pos]))
    # 6. Vmap of a nested fn with a mapped and an unmapped argument
    two = fn([("u", leafy(0, 1), [v(0)]), ("w", D1, [v(2), v(1)])], add(v(2), v(3)))
    P.append(("vmap-of-nested-fn",
              fn([("t", D0, [v(0)]), ("m", ("vmap", two, (True, False), N), [v(2), v(3)]), ("o", D0, [half(("sum", v(4)))])], v(5)),
              [neg, pos]))
    # 7. Vmap of Vmap (inner repeat) and a repeat inside a scan step
    P.append(("vmap-of-vmap+scan-of-vmap",
              fn([("g", ("vmap", ("vmap", D0, (False,), 3), (True,), N), [v(2)]),
                  ("s", ("scan", step_vmap(), N), [v(0), v(2)])], add(half(("sum", v(3))), ("fst", v(4)))), [neg, pos]))
    # 8. Scan inside a Cond branch, other branch a Scan too (shared step addresses)
    sb = fn([("s", ("scan", step(0), N), [v(0), v(1)])], ("fst", v(2)))
    sb2 = fn([("s", ("scan", step(2), N), [half(v(0)), v(1)])], half(("sum", ("snd", v(2)))))
    P.append(("cond-of-scan",
              fn([("k", ("cond", sb, sb2), [chk, v(1), v(2)]), ("z", D0, [v(3)])], v(4)), [neg, pos]))
    # 9. Vmap whose lanes contain a Cond (check per lane)
    lane = fn([("b", ("cond", leafy(0, 1), leafy(1, 0)), [lt(v(0), c(0)), v(1)])], v(2))
    P.append(("vmap-of-fn-of-cond",
              fn([("m", ("vmap", lane, (True, False), N), [v(2), v(1)]), ("o", D0, [half(("sum", v(3)))])], v(4)), [neg, pos]))
    # 10. Vmap DIRECTLY over a Cond: the check is the mapped argument itself (0 = false), so lanes take different branches
    zv0 = [Fr(-1, 2), Fr(3, 4), [Fr(1, 4), Fr(0)]]
    zv1 = [Fr(1, 2), Fr(-1, 4), [Fr(0), Fr(5, 4)]]
    P.append(("vmap-of-cond-direct",
              fn([("m", ("vmap", ("cond", leafy(0, 1), leafy(2, -1)), (True, False), N), [v(2), v(1)]),
                  ("o", D0, [half(("sum", v(3)))])], add(v(4), half(("sum", v(3))))), [zv0, zv1]))
    # 11. ... and with vector-valued branches (inner repeat): lane-wise selection must not broadcast across lanes
    rep = fn([("r", ("vmap", D0, (False,), N), [v(0)])], half(("sum", v(1))))
    rep2 = fn([("r", ("vmap", D1, (False, False), N), [v(0), c(Fr(1, 2))])], ("sum", v(1)))
    P.append(("vmap-of-cond-vector-branches",
              fn([("m", ("vmap", ("cond", rep, rep2), (True, False), N), [v(2), v(0)])], half(("sum", v(3)))), [zv0, zv1]))
    # 12-14. TOP-LEVEL combinators (the trace handed to the user IS the combinator's trace: stored args, convenience update)
    P.append(("top-scan", ("scan", step(1), N), [[Fr(1, 2), [Fr(1, 4), Fr(-3, 4)]], [Fr(-1, 4), [Fr(-1, 2), Fr(5, 4)]]]))
    P.append(("top-vmap", ("vmap", two, (True, False), N), [[[Fr(1, 4), Fr(-3, 4)], Fr(1, 2)], [[Fr(-1, 2), Fr(5, 4)], Fr(-1, 4)]]))
    P.append(("top-cond", ("cond", nested(0), nested(1)), [[Fr(1), Fr(3, 4)], [Fr(0), Fr(-1, 4)]]))
    return P


def _values(g, k):
    """deterministic dyadic leaf values for every path of g (variant k)"""
    out = {}
    for i, p in enumerate(sorted(gfi.all_paths(g), key=str)):
        out[p] = Fr(((i * 5 + k * 3) % 13) - 6, 4)
    return out


def _subset(g, vals, keep_every, phase):
    sp = sorted({gfi.strip_lanes(p) for p in gfi.all_paths(g)})
    keep = {p for i, p in enumerate(sp) if (i + phase) % keep_every == 0}
    return gfi.cm_from_leafmap(g, {p: x for p, x in vals.items() if gfi.strip_lanes(p) in keep})


def _first_path_selection(g, depth_pref=2):
    sp = sorted({gfi.strip_lanes(p) for p in gfi.all_paths(g)}, key=lambda p: (-len(p), p))
    return sp


def scripts(prop, g, variants):
    """op scripts (lists of ops) for property `prop` on program g"""
    a0, a1 = variants
    full0 = gfi.cm_from_leafmap(g, _values(g, 0))
    full1 = gfi.cm_from_leafmap(g, _values(g, 1))
    if prop == "C01":
        return [[("simulate", a0), ("assess", full0, a0), ("simulate", a1), ("assess", full1, a1)]]
    if prop == "C02":
        return [[("generate", full0, a0), ("generate", None, a0), ("generate", _subset(g, _values(g, 0), 2, 0), a0),
                 ("generate", _subset(g, _values(g, 1), 2, 1), a1), ("generate", _subset(g, _values(g, 2), 3, 0), a1)]]
    if prop == "C03":
        return [[("simulate", a0), ("update", None, a1), ("update", _subset(g, _values(g, 1), 2, 0), a1, "conv"),
                 ("update", _subset(g, _values(g, 2), 3, 1), a0), ("update", None, a0), ("update", _subset(g, _values(g, 0), 2, 1), a0, "conv")],
                [("generate", full0, a1), ("update", _subset(g, _values(g, 1), 2, 1), a0), ("update", full1, a1)],
                # fresh from simulate (hidden Cond branches still hold their OWN draws), then at once a partial constraint + flipped arguments
                [("simulate", a0), ("update", _subset(g, _values(g, 2), 2, 1), a1), ("update", _subset(g, _values(g, 1), 3, 0), a0)],
                [("simulate", a1), ("update", _subset(g, _values(g, 0), 3, 2), a0)]]
    sp = _first_path_selection(g)
    deep = sp[0]
    top = ("str", deep[0])
    sels = [("tup",) + tuple(deep), top, ("compl", ("tup",) + tuple(deep)), ("none",), ("all",)]
    upstream = [p for p in sp if len(p) == 1]
    if upstream:
        sels.insert(2, ("str", upstream[0][0]))      # an upstream site alone (does not reach into combinators)
    if prop == "C04":
        ops = [("generate", full0, a0)]
        for s in sels:
            ops.append(("regenerate", s, a0))
        ops.append(("regenerate", ("none",), a1))      # empty selection WITH an argument change: re-scoring only
        ops.append(("regenerate", sels[0], a1))
        return [ops]
    if prop == "C05":
        ops = [("simulate", a0), ("update", _subset(g, _values(g, 1), 2, 1), a1), ("generate", _subset(g, _values(g, 0), 2, 0), a0)]
        ops += [("regenerate", sels[0], a0), ("update", None, a1), ("update", _subset(g, _values(g, 2), 2, 0), a1, "conv"), ("regenerate", sels[1], a1),
                ("update", _subset(g, _values(g, 1), 2, 1), a1), ("regenerate", sels[2] if len(sels) > 2 else ("all",), a0),
                ("update", None, a0), ("update", None, a1)]
        return [ops]
    raise ValueError(prop)


def run(ctx, G, prop, shard, nshards):
    """run the corpus programs assigned to this shard"""
    import gfi_run
    import sexp
    for i, (name, g, variants) in enumerate(programs()):
        if i % nshards != shard:
            continue
        for ops in scripts(prop, g, variants):
            if g[0] == "vmap":
                ops = [op[:3] for op in ops]      # explicit arguments only; the convenience form is probed separately below
            gfi_run.check_case(ctx, G, g, ops, roundtrip=(prop == "C03"), label=f"{prop}-corpus:{name}")
            ctx.count(f"corpus:{name}")
            ctx.case(sample=None, nontrivial_key=("corpus", name, prop, len(ops)))
        if name == "top-vmap" and prop in ("C03", "C05"):
            vmap_trace_probe(ctx, G)


def vmap_trace_probe(ctx, G):
    """Known finding vmap-trace-no-wrapper: the trace of a top-level Vmap is the batched callee trace, so
    `trace.update(constraints)` (and everything else that asks the trace for its generative function / arguments)
    runs the CALLEE un-vectorised on batched data. Compared here with the explicit `vm.update(trace, constraints, *args)`."""
    import jax.numpy as jnp
    import jax.random as jr
    import numpy as np
    import impl
    from genjax import gen, normal

    @gen
    def callee(m, s):
        a = normal(m, s) @ "a"
        return jnp.sum(a) + a          # mixes lanes unless it really runs per lane

    ms = jnp.array([0.0, 1.0, -1.0])
    vm = callee.vmap(in_axes=(0, None))
    case = {"kind": "vmap-trace-convenience", "program": "callee.vmap(in_axes=(0, None)) at top level", "op": "trace.update({a: a + 0.5})"}
    try:
        tr = G.seed(vm.simulate)(jr.key(3), ms, 1.5)
        new = {"a": tr.get_choices()["a"] + 0.5}
        t1, w1, _ = vm.update(tr, new, ms, 1.5)
        t2, w2, _ = tr.update(new)
        same = np.shape(w2) == () and abs(float(w1) - float(w2)) < 1e-4 and np.allclose(np.asarray(t1.get_retval()), np.asarray(t2.get_retval()), atol=1e-5)
        if not same:
            ctx.property_failure("vmap-trace-no-wrapper",
                                 f"trace.update(constraints) on a top-level Vmap trace: weight {np.asarray(w2).tolist()} / retval {np.asarray(t2.get_retval()).tolist()} "
                                 f"differ from vm.update(trace, constraints, *args): weight {float(w1)} / retval {np.asarray(t1.get_retval()).tolist()}",
                                 case, matches_asis=(np.shape(w2) == (3,)))
    except Exception as e:
        impl.reset_handlers()
        ctx.property_failure(None, f"trace.update on a top-level Vmap trace raised {type(e).__name__}: {str(e)[:150]}", case)
    ctx.case(nontrivial_key=("vmap-trace-probe",))
    ctx.count("corpus:vmap-trace-probe")
