"""Compat build: make /repo's genjax (written for JAX 0.7.x) executable on the
sandbox's JAX 0.11 WITHOUT touching /repo.

On every run the harness copies <repo>/src/genjax from the *current working tree*
into a scratch directory, applies the purely mechanical substitutions below and
puts the copy first on sys.path.  Nothing here changes a genjax decision: only how
JAX internals are called (see DESIGN.md Appendix A).  The scratch copy is removed
at exit.
"""
from __future__ import annotations

import atexit
import os
import re
import shutil
import sys
import tempfile

SHIM = r'''
"""Injected by /verif/harness/compat.py -- JAX 0.11 vocabulary for genjax (0.7 idioms)."""
import jax
import jax.tree_util as jtu
from jax._src import core as _core
from jax._src import ad_util as _ad_util
from jax._src.interpreters import ad as _ad
from jax._src.interpreters import batching as _batching


def get_aval(x):
    return _core.typeof(x)


TraceTag = _core.TraceTag
DropVar = _core.DropVar


def var_id(v):
    return id(v)


def _n_leaves(ft):
    return len(jtu.tree_leaves(ft, is_leaf=lambda x: x is None))


class LegacyParams(dict):
    """Real 0.11 params for ``**params``; item access also answers the 0.7 names."""

    def __init__(self, eqn):
        super().__init__(eqn.primitive.get_bind_params(eqn.params))
        self._eqn = eqn

    def _legacy(self, k):
        p = self._eqn.params
        name = getattr(self._eqn.primitive, "name", "")
        if name == "scan":
            if k in ("num_consts", "num_carry"):
                consts, carry, xs = p["ft_in"].unpack()
                n = {"num_consts": consts, "num_carry": carry}[k]
                return len(list(n.vals)) if hasattr(n, "vals") else _n_leaves(n)
            if k == "jaxpr":
                j = p["jaxpr"]
                return j if isinstance(j, _core.ClosedJaxpr) else _core.ClosedJaxpr(j, ())
        if name == "cond" and k == "branches":
            return tuple(
                b if isinstance(b, _core.ClosedJaxpr) else _core.ClosedJaxpr(b, ())
                for b in p["branches"]
            )
        raise KeyError(k)

    def __getitem__(self, k):
        try:
            return self._legacy(k)
        except KeyError:
            return super().__getitem__(k)

    def get(self, k, default=None):
        try:
            return self[k]
        except KeyError:
            return default


def bind_params(eqn):
    return [], LegacyParams(eqn)


def jvp_call(impl, params, debug_info, flat_primals, flat_tangents):
    """0.7: ad.jvp(lu.wrap_init(impl, params)).call_wrapped(primals, tangents)."""
    def f(*xs):
        return impl(*xs, **params)
    out_p, out_t = jax.jvp(f, tuple(flat_primals), tuple(
        _instantiate(p, t) for p, t in zip(flat_primals, flat_tangents)))
    return out_p, out_t


def _instantiate(p, t):
    if isinstance(t, _ad.Zero) or type(t).__name__ == "Zero":
        return _ad.instantiate_zeros(t)
    return t


def zero_from_primal_value(v):
    return _ad_util.p2tz(v) if hasattr(_ad_util, "p2tz") else _ad.Zero.from_primal_value(v)
'''

# (regex, replacement) applied to every .py file of the scratch copy.
_SUBS = [
    (re.compile(r"\bjc\.get_aval\("), "_jaxcompat.get_aval("),
    (re.compile(r"\bjax\._src\.core\.get_aval\("), "_jaxcompat.get_aval("),
    (re.compile(r"\bjc\.TraceTag\(\)"), "_jaxcompat.TraceTag()"),
    (re.compile(r"\bjc\.DropVar\b"), "_jaxcompat.DropVar"),
    (re.compile(r"\bvar\.count\b"), "_jaxcompat.var_id(var)"),
    (
        re.compile(r"subfuns, params = eqn\.primitive\.get_bind_params\(eqn\.params\)"),
        "subfuns, params = _jaxcompat.bind_params(eqn)",
    ),
    (
        re.compile(r"jax_autodiff\.Zero\.from_primal_value\("),
        "_jaxcompat.zero_from_primal_value(",
    ),
]

_scratch_dirs: list[str] = []


def _cleanup():
    for d in _scratch_dirs:
        shutil.rmtree(d, ignore_errors=True)


atexit.register(_cleanup)


def build(repo: str = "/repo") -> str:
    """Copy <repo>/src/genjax to a scratch dir with the compat rewrites; return the
    directory to put on sys.path."""
    base = os.environ.get("VERIF_SCRATCH") or tempfile.gettempdir()
    root = tempfile.mkdtemp(prefix="genjax_compat_", dir=base)
    _scratch_dirs.append(root)
    src = os.path.join(repo, "src", "genjax")
    dst = os.path.join(root, "genjax")
    shutil.copytree(src, dst, ignore=shutil.ignore_patterns("__pycache__", "viz"))
    # viz pulls matplotlib; keep an empty package so `import genjax.viz` still works
    os.makedirs(os.path.join(dst, "viz"), exist_ok=True)
    vz = os.path.join(src, "viz")
    if os.path.isdir(vz):
        shutil.rmtree(os.path.join(dst, "viz"))
        shutil.copytree(vz, os.path.join(dst, "viz"), ignore=shutil.ignore_patterns("__pycache__"))
    with open(os.path.join(dst, "_jaxcompat.py"), "w") as fh:
        fh.write(SHIM)
    report = {}
    for dirpath, _, files in os.walk(dst):
        for fn in files:
            if not fn.endswith(".py") or fn == "_jaxcompat.py":
                continue
            p = os.path.join(dirpath, fn)
            text = open(p).read()
            new = text
            n_total = 0
            for rx, rep in _SUBS:
                new, n = rx.subn(rep, new)
                n_total += n
            new, n = _rewrite_jvp(new)
            n_total += n
            if n_total:
                new = _add_import(new)
                open(p, "w").write(new)
                report[os.path.relpath(p, dst)] = n_total
    build.last_report = report
    return root


_JVP_RX = re.compile(
    r"ad\.jvp\(\s*lu\.wrap_init\(impl, params, debug_info=debug_info\)\s*\)\.call_wrapped\(flat_primals, flat_tangents\)"
)


def _rewrite_jvp(text):
    return _JVP_RX.subn(
        "_jaxcompat.jvp_call(impl, params, debug_info, flat_primals, flat_tangents)", text
    )


def _add_import(text: str) -> str:
    line = "from genjax import _jaxcompat  # injected by /verif compat build\n"
    if line in text:
        return text
    # after the module docstring / __future__ imports: put before first 'import ' line
    m = re.search(r"^(import |from (?!__future__))", text, flags=re.M)
    if not m:
        return line + text
    return text[: m.start()] + line + text[m.start():]


def activate(repo: str = "/repo") -> str:
    root = build(repo)
    sys.path.insert(0, root)
    for k in [k for k in sys.modules if k == "genjax" or k.startswith("genjax.")]:
        del sys.modules[k]
    return root


if __name__ == "__main__":
    r = build(sys.argv[1] if len(sys.argv) > 1 else "/repo")
    _scratch_dirs.clear()  # caller owns it
    print(r)
