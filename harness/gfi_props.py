"""C01–C05: case generators per property (shared GFI runner in gfi_run.py)."""
from __future__ import annotations

import random
from fractions import Fraction as Fr

import gfi
import gfi_corpus
import gfi_kwargs
import gfi_run
import impl
import sexp
from props import c16 as selmod


def _gen(rng, ctx, depth=None):
    d = depth if depth is not None else rng.choice([1, 2, 2, 3] if ctx.thorough else [1, 2, 2])
    gen = gfi.Gen(rng, depth=d)
    g, pt = gen.program()
    return gen, g, pt


def _note(ctx, g, ops, label):
    kinds = "+".join(k for k in ("vmap", "scan", "cond") if gfi.has_kind(g, k)) or "flat"
    ctx.count(f"{label}:{kinds}")
    ctx.count(f"sites:{min(gfi.size(g) // 5 * 5, 30)}+")
    sample = None
    if ctx.coverage["evaluations"] % 17 == 0:
        sample = {"program": sexp.dumps(gfi.gf_sexp(g)), "ops": [sexp.dumps(gfi_run.op_sexp(o))[:300] for o in ops]}
    ctx.case(sample=sample, nontrivial_key=(label, sexp.dumps(gfi.gf_sexp(g)), len(ops)) if gfi.size(g) >= 2 else None)


def perturb_args(gen, args, rng, p=0.7):
    out = []
    for a in args:
        if rng.random() < p:
            out.append(gen.q() if not isinstance(a, list) else [gen.q() for _ in a])
        else:
            out.append(a)
    return out


def constraint_subset(rng, g, vals, mode):
    keep = gfi.subset_structural(rng, g, mode)
    lm = {p: v for p, v in vals.items() if gfi.strip_lanes(p) in keep}
    return gfi.cm_from_leafmap(g, lm)


SEL_ATOMS = None


def rand_selection(rng, g):
    """selection expression aimed at the program's own addresses (hierarchical shapes favoured)"""
    spaths = sorted({gfi.strip_lanes(p) for p in gfi.all_paths(g)})
    deep = [p for p in spaths if len(p) >= 2]

    def tup(p):
        return ("tup",) + tuple(p)

    def atom():
        r = rng.random()
        p = rng.choice(spaths)
        if r < 0.08:
            return ("all",)
        if r < 0.16:
            return ("none",)
        if r < 0.4:
            return ("str", p[0])
        if r < 0.85:
            k = rng.randint(1, len(p))
            return tup(p[:k])
        return ("dict", (p[0], ("all",) if len(p) == 1 else tup(p[1:])))

    def sibling_pair():
        """two selections sharing their first address component"""
        p = rng.choice(deep)
        sibs = [q for q in deep if q[0] == p[0] and q != p]
        q = rng.choice(sibs) if sibs else p
        forms = [
            (tup(p), tup(q)),
            (tup(p), ("str", p[0])),
            (("str", p[0]), tup(q)),
            (("dict", (p[0], tup(p[1:]))), tup(q)),
            (tup(p[:1]), ("dict", (p[0], tup(q[1:])))),
        ]
        return rng.choice(forms)

    r = rng.random()
    if deep and r < 0.3:
        a, b = sibling_pair()
        k = rng.random()
        if k < 0.45:
            return ("union", a, b)
        if k < 0.65:
            return ("inter", a, ("compl", b))
        if k < 0.8:
            return ("inter", ("union", a, b), a)
        if k < 0.9:
            return ("compl", ("union", a, b))
        return ("union", ("inter", a, b), b)
    if r < 0.55:
        return atom()
    if r < 0.7:
        return ("union", atom(), atom())
    if r < 0.82:
        return ("compl", atom())
    if r < 0.92:
        return ("inter", atom(), ("compl", atom()))
    return ("union", ("compl", atom()), atom())


# ------------------------------------------------------------------ shards
def shard_c01(ctx, shard, n, nshards=13):
    G = impl.load()
    gfi_corpus.run(ctx, G, "C01", shard, nshards)   # structural corpus first
    if shard == nshards - 1:
        gfi_kwargs.run(ctx, G, "C01")            # keyword-argument twins (model has positional args only)
    rng = random.Random(ctx.seed * 7919 + shard)
    for _ in range(n):
        gen, g, pt = _gen(rng, ctx)
        args = gen.args(pt)
        cm = gfi.cm_from_leafmap(g, gen.values(g))
        cm2 = gfi.cm_from_leafmap(g, gen.values(g))
        ops = [("simulate", args), ("assess", cm, args), ("assess", cm2, perturb_args(gen, args, rng)), ("simulate", perturb_args(gen, args, rng))]
        gfi_run.check_case(ctx, G, g, ops, label="C01")
        _note(ctx, g, ops, "sim/assess")


def shard_c02(ctx, shard, n, nshards=13):
    G = impl.load()
    gfi_corpus.run(ctx, G, "C02", shard, nshards)   # structural corpus first
    if shard == nshards - 1:
        gfi_kwargs.run(ctx, G, "C02")            # keyword-argument twins (model has positional args only)
    rng = random.Random(ctx.seed * 7919 + shard + 100)
    for _ in range(n):
        gen, g, pt = _gen(rng, ctx)
        args = gen.args(pt)
        vals = gen.values(g)
        ops = []
        for mode in ("all", "none", "some", "some", "some"):
            ops.append(("generate", constraint_subset(rng, g, vals, mode), args))
        ops.append(("generate", None, args))
        gfi_run.check_case(ctx, G, g, ops, label="C02")
        _note(ctx, g, ops, "generate")


def cond_flip_program(rng, ctx):
    """top-level fn whose first call is a Cond checked on the sign of argument 0 (so an argument change flips the branch)"""
    gen = gfi.Gen(rng, depth=1)
    tb = gen.scalar_gf(1, 1)
    if tb[0] == "fn":
        fb = gen.mutate(tb) if rng.random() < 0.8 else gen.fn(["S"], 0, addrs=["u", "w"])
    else:
        fb = gen.mutate(tb)
    rest = gen.fn(["S", "S", "V", "S"], 1, ncalls=rng.randint(1, 2), addrs=rng.sample(["p", "q", "r"], 2))
    body = ("call", "k", ("cond", tb, fb), [("<", ("v", 0), ("c", Fr(0))), gen.sexpr(["S", "S"], 1)], rest[1])
    return gen, ("fn", body), ["S", "S", "V"]


def shard_c03(ctx, shard, n, nshards=13):
    G = impl.load()
    gfi_corpus.run(ctx, G, "C03", shard, nshards)   # structural corpus first
    if shard == nshards - 1:
        gfi_kwargs.run(ctx, G, "C03")            # keyword-argument twins (model has positional args only)
    rng = random.Random(ctx.seed * 7919 + shard + 200)
    for it in range(n):
        if it % 3 == 2:
            gen, g, pt = cond_flip_program(rng, ctx)
            args = gen.args(pt)
            args[0] = Fr(rng.choice([-3, -1, 1, 3]), 4)
            ops = [("simulate", args) if rng.random() < 0.6 else ("generate", constraint_subset(rng, g, gen.values(g), "some"), args)]
            for j in range(3):
                args = list(args)
                args[0] = -args[0] if rng.random() < 0.8 else args[0]
                ops.append(("update", constraint_subset(rng, g, gen.values(g), rng.choice(["none", "none", "some"])), args))
            gfi_run.check_case(ctx, G, g, ops, roundtrip=True, label="C03")
            _note(ctx, g, ops, "update-cond-flip")
            continue
        gen, g, pt = _gen(rng, ctx)
        args = gen.args(pt)
        start = rng.random()
        if start < 0.5:
            ops = [("generate", gfi.cm_from_leafmap(g, gen.values(g)), args)]
        elif start < 0.75:
            ops = [("simulate", args)]
        else:
            ops = [("generate", constraint_subset(rng, g, gen.values(g), "some"), args)]
        for j in range(3):
            new_args = perturb_args(gen, args, rng, p=[0.0, 0.7, 1.0][j % 3] if rng.random() < 0.7 else 0.5)
            mode = rng.choice(["none", "some", "some", "all"])
            c = constraint_subset(rng, g, gen.values(g), mode)
            ops.append(("update", c, new_args))
        gfi_run.check_case(ctx, G, g, ops, roundtrip=True, label="C03")
        _note(ctx, g, ops, "update")


def shard_c04(ctx, shard, n, nshards=13):
    G = impl.load()
    gfi_corpus.run(ctx, G, "C04", shard, nshards)   # structural corpus first
    if shard == nshards - 1:
        gfi_kwargs.run(ctx, G, "C04")            # keyword-argument twins (model has positional args only)
    rng = random.Random(ctx.seed * 7919 + shard + 300)
    for _ in range(n):
        gen, g, pt = _gen(rng, ctx)
        args = gen.args(pt)
        ops = [("generate", gfi.cm_from_leafmap(g, gen.values(g)), args)]
        sels = [("none",), ("all",), rand_selection(rng, g), rand_selection(rng, g)]
        rng.shuffle(sels)
        for j, s in enumerate(sels):
            new_args = args if (s == ("none",) or rng.random() < 0.5) else perturb_args(gen, args, rng, p=0.5)
            ops.append(("regenerate", s, new_args))
            args = new_args
        gfi_run.check_case(ctx, G, g, ops, label="C04")
        _note(ctx, g, ops, "regenerate")


def shard_c05(ctx, shard, n, nshards=13):
    G = impl.load()
    gfi_corpus.run(ctx, G, "C05", shard, nshards)   # structural corpus first
    if shard == nshards - 1:
        gfi_kwargs.run(ctx, G, "C05")            # keyword-argument twins (model has positional args only)
    rng = random.Random(ctx.seed * 7919 + shard + 400)
    for _ in range(n):
        gen, g, pt = _gen(rng, ctx)
        args = gen.args(pt)
        ops = [("generate", constraint_subset(rng, g, gen.values(g), rng.choice(["all", "some"])), args)]
        for j in range(rng.randint(4, 10 if ctx.thorough else 7)):
            if rng.random() < 0.6:
                args = perturb_args(gen, args, rng, p=0.5)
            if rng.random() < 0.55:
                ops.append(("update", constraint_subset(rng, g, gen.values(g), rng.choice(["none", "some", "some", "all"])), args))
            else:
                ops.append(("regenerate", rand_selection(rng, g), args))
        gfi_run.check_case(ctx, G, g, ops, label="C05")
        _note(ctx, g, ops, "history")
