"""Placements of an unseeded sampling site inside JAX control flow / transformations (C14)."""
import itertools

CONSTRUCTS = ["jit", "scan", "while", "fori", "fori_dyn", "cond", "switch", "grad", "vmap_b", "vmap_u", "mvmap", "checkpoint", "custom_jvp"]
# opaque higher-order constructs: JAX keeps the wrapped function as a sub-jaxpr of ONE equation (remat / custom_jvp_call /
# custom_vjp_call) which it evaluates eagerly without compiling; all three are the Lean construct `C.opaque`
OPAQUE = {"checkpoint", "custom_jvp", "custom_vjp"}
COMPILING = {"jit", "scan", "while", "fori", "fori_dyn", "cond", "switch"}


def build(G, placement, kind="plain"):
    """placement: tuple of construct names, outermost first, around a single sampling site.
    Returns f(x: f32 scalar) -> f32 scalar"""
    import jax
    import jax.numpy as jnp
    normal = G.normal

    def site(x):
        return normal.sample(x * 0.0, 1.0) + x * 0.0

    if kind == "adev":
        from genjax.adev import normal_reparam

        def site(x):  # noqa: F811  an ADEV estimator site (bound to adev_sample_p)
            return normal_reparam.sample(x * 0.0, 1.0) + x * 0.0

    f = site
    for c in reversed(placement):
        f = wrap(G, c, f)
    return f


def wrap(G, c, g):
    import jax
    import jax.numpy as jnp
    if c == "jit":
        return jax.jit(g)
    if c == "scan":
        def f(x):
            _, ys = jax.lax.scan(lambda carry, t: (carry, g(x)), 0.0, jnp.arange(2))
            return ys[0] + 0.0 * ys[1] + (ys[1] - ys[1])
        return f
    if c == "while":
        def f(x):
            r = jax.lax.while_loop(lambda s: s[0] < 1, lambda s: (s[0] + 1, g(x)), (0, x * 0.0))
            return r[1]
        return f
    if c == "fori":
        return lambda x: jax.lax.fori_loop(0, 1, lambda i, a: g(x), x * 0.0)
    if c == "fori_dyn":
        return lambda x: jax.lax.fori_loop(0, (x * 0 + 1).astype(int), lambda i, a: g(x), x * 0.0)
    if c == "cond":
        return lambda x: jax.lax.cond(x > -1e9, lambda: g(x), lambda: g(x) * 1.0)
    if c == "switch":
        return lambda x: jax.lax.switch(0, [lambda: g(x), lambda: g(x) + 0.0])
    if c == "grad":
        return lambda x: jax.grad(lambda y: g(y) * y)(x + 1.0)      # d/dy (g(y) y) = g(y) (g has zero derivative)
    if c == "vmap_b":
        return lambda x: _lanes(jax.vmap(g)(jnp.stack([x, x])))
    if c == "vmap_u":
        return lambda x: _lanes(jax.vmap(lambda _: g(x))(jnp.zeros(2)))
    if c == "mvmap":
        return lambda x: _lanes(G.modular_vmap(lambda _: g(x), in_axes=(0,))(jnp.zeros(2)))
    if c == "checkpoint":
        return jax.checkpoint(g)
    if c == "custom_jvp":
        f = jax.custom_jvp(g)
        f.defjvp(lambda primals, tangents: jax.jvp(g, primals, tangents))     # the rule differentiates g itself
        return f
    if c == "custom_vjp":
        f = jax.custom_vjp(g)
        f.defvjp(lambda x: jax.vjp(g, x), lambda res, ct: res(ct))
        return f
    raise ValueError(c)


def _lanes(out):
    """lane 0 of a mapped result; NaN if the two lanes hold the same draw (one draw replicated)"""
    import jax.numpy as jnp
    return jnp.where(out[0] == out[1], jnp.nan, out[0])


def classify(G, placement, seeded, kind="plain"):
    """outcome of calling the placement: ('lowering-error'|'batch-error'|'other-error:<T>'|'fresh'|'fixed'|'key-function'|'key-ignored')"""
    import jax
    import jax.numpy as jnp
    import jax.random as jr
    from genjax.pjax import LoweringSamplePrimitiveToMLIRException
    import math
    f = build(G, placement, kind)
    x = jnp.float32(0.5)
    try:
        if seeded:
            h = G.seed(f)
            a = float(h(jr.key(1), x))
            b = float(h(jr.key(1), x))
            c = float(h(jr.key(2), x))
            if math.isnan(a):
                return "replicated"
            if a != b:
                return "seeded-not-reproducible"
            if a == c:
                return "key-ignored"
            try:
                d = float(jax.jit(h)(jr.key(1), x))
            except Exception:
                return "seeded-jit-differs"      # eager seeded call returned a value, the compiled one raises
            if abs(a - d) > 1e-6:
                return "seeded-jit-differs"
            return "key-function"
        a = float(f(x))
        b = float(f(x))
        if any(c in COMPILING for c in placement):
            return "baked"          # a compiled construct returned a value although a site was inside (also when a map then
                                    # replicates that baked draw over its lanes: same precedence as Lowering.outcome)
        if math.isnan(a):
            return "replicated"
        return "fresh" if a != b else "fixed"
    except LoweringSamplePrimitiveToMLIRException:
        return "lowering-error"
    except NotImplementedError as e:
        return "batch-error" if "modular_vmap" in str(e) else "other-error:NotImplementedError"
    except Exception as e:
        return "other-error:" + type(e).__name__
