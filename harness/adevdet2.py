"""C15, richer deterministic language (lean/GenjaxModel/Model/AdevDet2.lean): random typed programs, emitted three ways -
as a JAX function (traced by expectation(f).jvp_estimate and by jax.jvp), as a term of the Lean driver (`adev-det2`), and through an exact
Fraction evaluator of the PRIMAL values that only decides whether a case is well-conditioned (no comparison / floor / sign / abs within a
margin of its discontinuity, no small divisor, bounded magnitudes), so that float32 and exact rational arithmetic must agree.

A program is a list of equations over an environment (inputs first, every equation appends its outputs):
    ("prim", op, ins)                       op = "add" | ("const", Fraction) | ("un", k) | ...   (the table of Op in AdevDet2.lean)
    ("call", ins, body, outs)               a jitted helper: ONE pjit equation with len(outs) outputs (mixed int / float)
    ("fori", n, consts, carry, body, outs)  lax.scan with static length n: ONE scan equation, carry may mix a counter and float state
    ("cond", c, ins, thn, thn_out, els, els_out)   lax.cond on the discrete env[c] != 0
Kinds: "f" float32, "i" int32 (bools are held as int32 0/1).
"""
from fractions import Fraction as Fr
import math

MARGIN = Fr(1, 16)
BOUND = 48

# op -> (operand kinds, output kinds)
SIG = {
    "add": ("ff", "f"), "sub": ("ff", "f"), "mul": ("ff", "f"), "div": ("ff", "f"), "neg": ("f", "f"),
    "select": ("iff", "f"), "gt": ("ff", "i"), "iadd": ("ii", "i"), "isub": ("ii", "i"), "imul": ("ii", "i"), "igt": ("ii", "i"),
    "tofloat": ("i", "f"),
}


def sig(op):
    if isinstance(op, tuple):
        return {"const": ("", "f"), "iconst": ("", "i"), "un": ("f", "f"), "step": ("f", "f"), "disc": ("f", "i"), "mixed": ("f", "if")}[op[0]]
    return SIG[op]


class IllConditioned(Exception):
    pass


def _trunc(x):
    return math.ceil(x) if x < 0 else math.floor(x)


def _away(x, points_are_integers=True, what=""):
    """x must keep MARGIN distance from the discontinuities (the integers, or 0)"""
    d = abs(x - round(x)) if points_are_integers else abs(x)
    if d < MARGIN:
        raise IllConditioned(what)


def eval_prim(op, a):
    k = op[0] if isinstance(op, tuple) else op
    if k == "const":
        return [Fr(op[1])]
    if k == "iconst":
        return [int(op[1])]
    if k == "add":
        return [a[0] + a[1]]
    if k == "sub":
        return [a[0] - a[1]]
    if k == "mul":
        return [a[0] * a[1]]
    if k == "div":
        if abs(a[1]) < Fr(1, 4):
            raise IllConditioned("small divisor")
        return [a[0] / a[1]]
    if k == "neg":
        return [-a[0]]
    if k == "un":
        if op[1] == 0:
            return [a[0] * a[0]]
        if op[1] == 1:
            return [a[0] * a[0] * a[0]]
        _away(a[0], False, "abs at 0")
        return [abs(a[0])]
    if k == "step":
        if op[1] == 0:
            _away(a[0], True, "floor")
            return [Fr(math.floor(a[0]))]
        if op[1] == 1:
            _away(a[0], True, "ceil")
            return [Fr(math.ceil(a[0]))]
        _away(a[0], False, "sign")
        return [Fr(1 if a[0] > 0 else -1)]
    if k == "select":
        return [a[1] if a[0] != 0 else a[2]]
    if k == "gt":
        _away(a[0] - a[1], False, "gt tie")
        return [1 if a[0] > a[1] else 0]
    if k == "disc":
        _away(a[0], True, "trunc")
        return [_trunc(a[0])]
    if k == "iadd":
        return [a[0] + a[1]]
    if k == "isub":
        return [a[0] - a[1]]
    if k == "imul":
        return [a[0] * a[1]]
    if k == "igt":
        return [1 if a[0] > a[1] else 0]
    if k == "tofloat":
        return [Fr(a[0])]
    if k == "mixed":
        if op[1] == 0:
            _away(a[0], True, "mixed trunc")
            return [_trunc(a[0]), a[0] - _trunc(a[0])]
        _away(a[0], True, "mixed floor")
        return [math.floor(a[0]), a[0] * a[0]]
    raise ValueError(op)


def eval_frac(prog, env):
    """exact primal evaluation; raises IllConditioned; returns the final environment"""
    env = list(env)
    for e in prog:
        if e[0] == "prim":
            outs = eval_prim(e[1], [env[i] for i in e[2]])
        elif e[0] == "call":
            inner = eval_frac(e[2], [env[i] for i in e[1]])
            outs = [inner[o] for o in e[3]]
        elif e[0] == "fori":
            cs = [env[i] for i in e[2]]
            c = [env[i] for i in e[3]]
            for _ in range(e[1]):
                inner = eval_frac(e[4], cs + c)
                c = [inner[o] for o in e[5]]
            outs = c
        elif e[0] == "cond":
            xs = [env[i] for i in e[2]]
            outs = [eval_frac(e[3], xs)[e[4]]] if env[e[1]] != 0 else [eval_frac(e[5], xs)[e[6]]]
        else:
            raise ValueError(e)
        for o in outs:
            if abs(o) > BOUND:
                raise IllConditioned("magnitude")
        env.extend(outs)
    return env


# ----------------------------------------------------------------------------- generator


def out_kinds(e, kinds):
    if e[0] == "prim":
        return list(sig(e[1])[1])
    if e[0] == "call":
        inner = prog_kinds(e[2], [kinds[i] for i in e[1]])
        return [inner[o] for o in e[3]]
    if e[0] == "fori":
        return [kinds[i] for i in e[3]]
    return ["f"]


def prog_kinds(prog, kinds):
    kinds = list(kinds)
    for e in prog:
        kinds.extend(out_kinds(e, kinds))
    return kinds


def _pick(rng, kinds, kind, recent_bias=True):
    idx = [i for i, k in enumerate(kinds) if k == kind]
    if not idx:
        return None
    if recent_bias and len(idx) > 2 and rng.random() < 0.5:
        return rng.choice(idx[-2:])
    return rng.choice(idx)


def gen_prim(rng, kinds):
    has_i = "i" in kinds
    ops = ["add", "sub", "mul", "mul", "neg", "const", "un", "un", "step", "gt", "disc", "mixed", "div"]
    if has_i:
        ops += ["select", "select", "select", "tofloat", "tofloat", "iadd", "imul", "igt", "isub", "iconst"]
    k = rng.choice(ops)
    if k == "const":
        op = ("const", Fr(rng.randint(-6, 6), 4))
    elif k == "iconst":
        op = ("iconst", rng.randint(-2, 3))
    elif k in ("un", "step"):
        op = (k, rng.randrange(3))
    elif k == "disc":
        op = ("disc", 0)
    elif k == "mixed":
        op = ("mixed", rng.randrange(2))
    else:
        op = k
    ins = [_pick(rng, kinds, c) for c in sig(op)[0]]
    if any(i is None for i in ins):
        return None
    if op in ("gt", "igt", "sub", "div") and ins[0] == ins[1]:
        return None     # x > x is a tie, x - x / x / x are constants
    return ("prim", op, ins)


def _computed_float(rng, prog, in_kinds):
    """index of a float COMPUTED by the branch (appends a negation if there is none): a lax.cond whose branches both forward the same
    operand loses that output at trace time (JAX's forwarding optimisation), and the interpreter raises on a cond without outputs"""
    k = prog_kinds(prog, in_kinds)
    idx = [i for i in range(len(in_kinds), len(k)) if k[i] == "f"]
    if not idx:
        prog.append(("prim", "neg", [_pick(rng, k, "f")]))
        return len(k)
    return rng.choice(idx)


def gen_prog(rng, kinds, depth, n_eqns, want_float_out=True):
    """random well-typed program over an environment of the given kinds"""
    prog = []
    kinds = list(kinds)
    conds = 0
    for _ in range(n_eqns):
        r = rng.random()
        e = None
        if depth > 0 and r < 0.14:
            ins = [rng.randrange(len(kinds)) for _ in range(rng.randint(1, 3))]
            if "f" not in [kinds[i] for i in ins]:
                ins.append(_pick(rng, kinds, "f"))
            body = gen_prog(rng, [kinds[i] for i in ins], depth - 1, rng.randint(2, 4))
            bk = prog_kinds(body, [kinds[i] for i in ins])
            outs = [_pick(rng, bk, "f")]
            if "i" in bk and rng.random() < 0.7:
                outs.insert(rng.randrange(2), _pick(rng, bk, "i"))
            if rng.random() < 0.3:
                outs.append(rng.randrange(len(bk)))
            e = ("call", ins, body, outs)
        elif depth > 0 and r < 0.28:
            consts = [rng.randrange(len(kinds)) for _ in range(rng.randint(0, 2))]
            carry = [_pick(rng, kinds, "f")]
            if rng.random() < 0.7:
                ci = _pick(rng, kinds, "i")
                if ci is not None:
                    carry.insert(0, ci)
            if rng.random() < 0.3:
                carry.append(rng.randrange(len(kinds)))
            bk0 = [kinds[i] for i in consts + carry]
            body = gen_prog(rng, bk0, depth - 1, rng.randint(2, 4))
            bk = prog_kinds(body, bk0)
            outs = [_pick(rng, bk, kinds[c]) for c in carry]
            e = ("fori", rng.randint(1, 3), consts, carry, body, outs)
        elif depth > 0 and r < 0.40 and "i" in kinds and conds < 2:
            conds += 1
            c = _pick(rng, kinds, "i")
            ins = [rng.randrange(len(kinds)) for _ in range(rng.randint(1, 3))]
            if "f" not in [kinds[i] for i in ins]:
                ins.append(_pick(rng, kinds, "f"))
            ik = [kinds[i] for i in ins]
            thn = gen_prog(rng, ik, depth - 1, rng.randint(1, 3))
            els = gen_prog(rng, ik, depth - 1, rng.randint(1, 3))
            e = ("cond", c, ins, thn, _computed_float(rng, thn, ik), els, _computed_float(rng, els, ik))
        else:
            for _try in range(8):
                e = gen_prim(rng, kinds)
                if e is not None:
                    break
        if e is None:
            continue
        prog.append(e)
        kinds.extend(out_kinds(e, kinds))
    if want_float_out and kinds[-1] != "f":
        prog.append(("prim", "tofloat", [len(kinds) - 1]))
    return prog


def interp_safe(prog, kinds, taint=None):
    """False for programs that hit a defect of the UNCHANGED implementation which is outside the modelled behaviour (observed on the
    compat build, JAX 0.11.1; jax.jvp is fine on all of them):
    (a) the integer output of a pjit equation (a jitted helper) gets a materialised int32 zero tangent instead of float0 (pjit's JVP
        rule returns Zero(int32[]) and _instantiate_zero_tangents materialises it with the primal dtype), the value stays "tainted"
        through integer arithmetic, and a scan that receives it as an operand raises TypeError (carry int32 vs float0);
    (b) a cond operand that is a trace-time constant appears as a Literal in the cond equation, is read as a raw value instead of a
        Dual and violates the DualTree annotation of ADEV.forward_mode._dual (TypeError).
    Only the levels the interpreter itself walks matter (top level and cond branches); bodies of call / fori are differentiated by
    JAX. (A third one is avoided by construction, see _computed_float: a cond whose branches forward the same operand.)"""
    taint = list(taint) if taint is not None else [False] * len(kinds)
    const = [False] * len(kinds)
    kinds = list(kinds)
    for e in prog:
        ok = out_kinds(e, kinds)
        if e[0] == "prim":
            k = e[1][0] if isinstance(e[1], tuple) else e[1]
            t = (k == "mixed") or any(taint[i] for i in e[2])
            taint.extend([t and o == "i" for o in ok])
            const.extend([all(const[i] for i in e[2])] * len(ok))
        elif e[0] == "call":
            taint.extend([o == "i" for o in ok])
            const.extend([all(const[i] for i in e[1])] * len(ok))
        elif e[0] == "fori":
            if any(taint[i] for i in e[2] + e[3]):
                return False
            taint.extend([False] * len(ok))
            const.extend([all(const[i] for i in e[2] + e[3])] * len(ok))
        else:
            if any(const[i] for i in e[2]):
                return False
            tin = [taint[i] for i in e[2]]
            kin = [kinds[i] for i in e[2]]
            if not interp_safe(e[3], kin, tin) or not interp_safe(e[5], kin, tin):
                return False
            taint.append(False)
            const.append(False)
        kinds.extend(ok)
    return True


def shape(prog, kinds):
    """histogram keys: which constructs a program uses (recursively)"""
    s = set()
    kinds = list(kinds)
    for e in prog:
        ok = out_kinds(e, kinds)
        if e[0] == "prim":
            s.add(e[1][0] if isinstance(e[1], tuple) else e[1])
        else:
            s.add(e[0])
            if len(set(ok)) == 2:
                s.add(e[0] + "-mixed-out")
            if e[0] == "call":
                s |= {"in-call:" + x for x in shape(e[2], [kinds[i] for i in e[1]]) if ":" not in x}
            elif e[0] == "fori":
                s |= {"in-loop:" + x for x in shape(e[4], [kinds[i] for i in e[2] + e[3]]) if ":" not in x}
            else:
                ik = [kinds[i] for i in e[2]]
                s |= {"in-cond:" + x for x in shape(e[3], ik) | shape(e[5], ik) if ":" not in x}
        kinds.extend(ok)
    return s


# ----------------------------------------------------------------------------- driver term


def to_sexp(prog):
    out = []
    for e in prog:
        if e[0] == "prim":
            out.append(["prim", list(e[1]) if isinstance(e[1], tuple) else e[1], list(e[2])])
        elif e[0] == "call":
            out.append(["call", list(e[1]), to_sexp(e[2]), list(e[3])])
        elif e[0] == "fori":
            out.append(["fori", e[1], list(e[2]), list(e[3]), to_sexp(e[4]), list(e[5])])
        else:
            out.append(["cond", e[1], list(e[2]), to_sexp(e[3]), e[4], to_sexp(e[5]), e[6]])
    return out


def from_sexp(x):
    """inverse of to_sexp on parsed s-expressions (replay files keep the program as text)"""
    def op(o):
        if isinstance(o, list):
            return (o[0], Fr(o[1])) if o[0] == "const" else (o[0], int(o[1]))
        return o
    ints = lambda l: [int(i) for i in l]
    out = []
    for e in x:
        if e[0] == "prim":
            out.append(("prim", op(e[1]), ints(e[2])))
        elif e[0] == "call":
            out.append(("call", ints(e[1]), from_sexp(e[2]), ints(e[3])))
        elif e[0] == "fori":
            out.append(("fori", int(e[1]), ints(e[2]), ints(e[3]), from_sexp(e[4]), ints(e[5])))
        else:
            out.append(("cond", int(e[1]), ints(e[2]), from_sexp(e[3]), int(e[4]), from_sexp(e[5]), int(e[6])))
    return out


def env_sexp(kinds, vals, tans):
    """tans[i]: Fraction (materialised tangent), "z" (symbolic zero - never produced for the implementation), None for discrete"""
    return [["i", int(v)] if k == "i" else ["f", Fr(v), t] for k, v, t in zip(kinds, vals, tans)]


# ----------------------------------------------------------------------------- JAX function


def build_jax(prog, out):
    """the program as a Python function of JAX values (float32 / int32 scalars) returning env[out]"""
    import jax
    import jax.numpy as jnp
    f32, i32 = jnp.float32, jnp.int32

    def prim(op, a):
        k = op[0] if isinstance(op, tuple) else op
        if k == "const":
            return [f32(float(op[1]))]
        if k == "iconst":
            return [i32(int(op[1]))]
        if k == "add":
            return [a[0] + a[1]]
        if k == "sub":
            return [a[0] - a[1]]
        if k == "mul":
            return [a[0] * a[1]]
        if k == "div":
            return [a[0] / a[1]]
        if k == "neg":
            return [-a[0]]
        if k == "un":
            return [[lambda x: jax.lax.integer_pow(x, 2), lambda x: jax.lax.integer_pow(x, 3), jnp.abs][op[1]](a[0])]
        if k == "step":
            return [[jnp.floor, jnp.ceil, jnp.sign][op[1]](a[0])]
        if k == "select":
            return [jax.lax.select(a[0] != 0, a[1], a[2])]
        if k == "gt":
            return [(a[0] > a[1]).astype(i32)]
        if k == "disc":
            return [a[0].astype(i32)]
        if k == "iadd":
            return [a[0] + a[1]]
        if k == "isub":
            return [a[0] - a[1]]
        if k == "imul":
            return [a[0] * a[1]]
        if k == "igt":
            return [(a[0] > a[1]).astype(i32)]
        if k == "tofloat":
            return [a[0].astype(f32)]
        if k == "mixed":
            if op[1] == 0:
                return list(jax.jit(lambda x: (x.astype(i32), x - jnp.trunc(x)))(a[0]))
            return list(jax.jit(lambda x: (jnp.floor(x).astype(i32), x * x))(a[0]))
        raise ValueError(op)

    def run(prog, env):
        env = list(env)
        for e in prog:
            if e[0] == "prim":
                env.extend(prim(e[1], [env[i] for i in e[2]]))
            elif e[0] == "call":
                body, outs = e[2], e[3]
                helper = jax.jit(lambda *xs, body=body, outs=outs: tuple(run(body, xs)[o] for o in outs))
                env.extend(helper(*[env[i] for i in e[1]]))
            elif e[0] == "fori":
                cs = [env[i] for i in e[2]]
                body, outs = e[4], e[5]

                def step(c, _, cs=cs, body=body, outs=outs):
                    inner = run(body, list(cs) + list(c))
                    return tuple(inner[o] for o in outs), None
                final, _ = jax.lax.scan(step, tuple(env[i] for i in e[3]), None, length=e[1])
                env.extend(final)
            else:
                thn, to, els, eo = e[3], e[4], e[5], e[6]
                env.append(jax.lax.cond(env[e[1]] != 0,
                                        lambda *xs, thn=thn, to=to: run(thn, xs)[to],
                                        lambda *xs, els=els, eo=eo: run(els, xs)[eo],
                                        *[env[i] for i in e[2]]))
        return env

    return lambda *args: run(prog, args)[out]


# ----------------------------------------------------------------------------- the proved counterexample witnesses (Proofs/AdevDet2Table.lean)

WITNESSES = [
    # name, program, out, input kinds, values, tangents, (value, tangent) proved for Cfg.code
    ("whereProg", [("prim", "gt", [0, 1]), ("prim", "mul", [0, 1]), ("prim", "sub", [0, 1]), ("prim", "select", [2, 3, 4])], 5,
     "ff", [Fr(3, 2), Fr(3, 4)], [Fr(1), Fr(1)], (Fr(9, 8), Fr(9, 4))),
    ("counterLoopProg", [("prim", ("iconst", 0), []), ("prim", ("const", Fr(1)), []),
                         ("fori", 3, [0], [1, 2], [("prim", ("iconst", 1), []), ("prim", "iadd", [1, 3]), ("prim", "mul", [2, 0]),
                                                   ("prim", "tofloat", [1]), ("prim", "add", [5, 6])], [4, 7])], 4,
     "f", [Fr(3, 2)], [Fr(1)], (Fr(55, 8), Fr(31, 4))),
    ("mixedProg", [("prim", ("mixed", 1), [0]), ("prim", "tofloat", [1]), ("prim", "mul", [2, 3])], 4,
     "f", [Fr(5, 2)], [Fr(1)], (Fr(25, 2), Fr(10))),
]
